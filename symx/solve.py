'''Equivalence queries (one per output element), margin queries, model extraction.'''
import z3, numpy, fractions
from . import sym as _sym
from .sym import Sym, lift, is_concrete, timed_check, Unsupported
from .sarray import SArray

def flat_elems(x):
    '''flatten nested tuples/lists of SArray / ndarray / scalars into a list of elements'''
    if isinstance(x, (tuple, list)):
        out = []
        for y in x: out.extend(flat_elems(y))
        return out
    if isinstance(x, SArray):
        return list(x.a.flat)
    if isinstance(x, Sym):
        return [x]
    a = numpy.asarray(x)
    return list(a.astype(object).flat)

def structure(x):
    '''shape/kind skeleton of a (nested) result, for concrete comparison'''
    if isinstance(x, (tuple, list)):
        return tuple(structure(y) for y in x)
    if isinstance(x, SArray):
        return (x.kind, tuple(x.shape))
    if isinstance(x, Sym):
        return (x.kind, ())
    a = numpy.asarray(x)
    return ({'b': 'b', 'i': 'i', 'u': 'i', 'f': 'f', 'c': 'c'}.get(a.dtype.kind, a.dtype.kind), tuple(a.shape))

def neq_term(a, b):
    '''z3 Bool term "a != b" or a python bool when both are concrete'''
    if is_concrete(a) and is_concrete(b):
        a = a.item() if isinstance(a, numpy.generic) else a
        b = b.item() if isinstance(b, numpy.generic) else b
        return bool(a != b)
    e = lift(a) != b
    if isinstance(e, Sym): return e.t
    return bool(e)

def _abs(t): return z3.If(t >= 0, t, -t)

def margin_term(a, b, rel):
    '''|a-b| > rel*max(1,|a|) for real/complex elements (a is the reference)'''
    a, b = lift(a), lift(b)
    k = max(a.kind, b.kind, key='bifc'.index)
    if k in 'bi': return neq_term(a, b)
    a, b = a.cast(k), b.cast(k)
    r = z3.RealVal(fractions.Fraction(rel))
    if k == 'c':
        d = _abs(a.re - b.re) + _abs(a.im - b.im); m = _abs(a.re) + _abs(a.im)
    else:
        d = _abs(a.t - b.t); m = _abs(a.t)
    return d > r * z3.If(m > 1, m, z3.RealVal(1))

def free_real_vars(terms):
    seen = {}
    def visit(t):
        stack = [t]; done = set()
        while stack:
            u = stack.pop()
            if u.get_id() in done: continue
            done.add(u.get_id())
            if z3.is_const(u) and u.decl().kind() == z3.Z3_OP_UNINTERPRETED:
                seen[str(u)] = u
            else:
                stack.extend(u.children())
    for t in terms:
        if z3.is_expr(t): visit(t)
    return list(seen.values())

# ---------------------------------------------------------------- rational normal form (query simplification done by z3's rewriter)

_ONE = z3.RealVal(1)
SOM_BLOWUP = 10**7      # bound on the growth of sum-of-monomials expansions inside z3.simplify (C code that a wall-clock budget cannot interrupt)

def _factors(t, out):
    '''split a product term into its literal factors: {term id: [term, multiplicity]}; numerals are dropped (non-zero numerals do not matter for a divisor)'''
    if z3.is_app(t) and t.decl().kind() == z3.Z3_OP_MUL:
        for c in t.children(): _factors(c, out)
    elif z3.is_rational_value(t) and t.as_fraction() != 0:
        pass
    else:
        e = out.setdefault(t.get_id(), [t, 0]); e[1] += 1
    return out

def _prod(num, facs):
    '''num * prod(term**mult)'''
    terms = [num] + [t for t, m in facs.values() for _ in range(m)]
    return z3.Product(*terms) if len(terms) > 1 else num

def _lcm(dens):
    l = {}
    for d in dens:
        for k, (t, m) in d.items():
            if k not in l or l[k][1] < m: l[k] = [t, m]
    return l

def _missing(l, d):
    return {k: [t, m - d.get(k, (None, 0))[1]] for k, (t, m) in l.items() if m - d.get(k, (None, 0))[1] > 0}

def ratnorm(t, cache):
    '''z3 real term -> (num, den): t == num / prod(term**mult for den) wherever every divisor term is non-zero.  den is a multiset of divisor
    factors {term id: [term, multiplicity]} (kept factored so that common denominators stay of minimal degree).  Only + - * / and unary minus are
    interpreted; every other sub-term (variables, if-then-else, uninterpreted functions, to_real) is an atom.'''
    k = t.get_id()
    r = cache.get(k)
    if r is not None: return r
    d = t.decl().kind() if z3.is_app(t) else None
    if d in (z3.Z3_OP_ADD, z3.Z3_OP_SUB):
        parts = [ratnorm(c, cache) for c in t.children()]
        den = _lcm([dd for _, dd in parts])
        nums = [_prod(n, _missing(den, dd)) for n, dd in parts]
        if d == z3.Z3_OP_ADD: num = z3.Sum(*nums) if len(nums) > 1 else nums[0]
        elif len(nums) == 1: num = -nums[0]
        else: num = nums[0] - (z3.Sum(*nums[1:]) if len(nums) > 2 else nums[1])
        r = (num, den)
    elif d == z3.Z3_OP_UMINUS:
        n, dd = ratnorm(t.arg(0), cache); r = (-n, dd)
    elif d == z3.Z3_OP_MUL:
        parts = [ratnorm(c, cache) for c in t.children()]
        num = z3.Product(*[n for n, _ in parts]) if len(parts) > 1 else parts[0][0]
        den = {}
        for _, dd in parts:
            for kk, (tt, m) in dd.items():
                e = den.setdefault(kk, [tt, 0]); e[1] += m
        r = (num, den)
    elif d == z3.Z3_OP_DIV:
        (n1, d1), (n2, d2) = ratnorm(t.arg(0), cache), ratnorm(t.arg(1), cache)
        # (n1/d1) / (n2/d2) = n1*d2 / (d1*n2)
        num = _prod(n1, d2)
        den = {kk: [tt, m] for kk, (tt, m) in d1.items()}
        for kk, (tt, m) in _factors(n2, {}).items():
            e = den.setdefault(kk, [tt, 0]); e[1] += m
        if z3.is_rational_value(n2):
            if n2.as_fraction() == 0: den[n2.get_id()] = [n2, 1]
            else: num = num / n2
        else:
            # numeric coefficient inside the divisor product
            coef = [c for c in (n2.children() if z3.is_app(n2) and n2.decl().kind() == z3.Z3_OP_MUL else []) if z3.is_rational_value(c)]
            for c in coef: num = num / c
        # d2's factors are divisors of the original term as well (they must be non-zero for t to be defined): keep them with multiplicity 0
        for kk, (tt, m) in d2.items(): den.setdefault(kk, [tt, 0])
        r = (num, den)
    else:
        r = (t, {})
    cache[k] = r
    return r

def _is_zero(t):
    return z3.is_rational_value(t) and t.as_fraction() == 0

def cross_difference(ta, tb, cache):
    '''(num_a * (lcm/den_a) - num_b * (lcm/den_b) in sum-of-monomials form, {id: divisor term})'''
    na, da = ratnorm(ta, cache); nb, db = ratnorm(tb, cache)
    l = _lcm([da, db])
    diff = z3.simplify(_prod(na, _missing(l, da)) - _prod(nb, _missing(l, db)), som=True, som_blowup=SOM_BLOWUP, flat=True, sort_sums=True)
    return diff, {k: t for k, (t, m) in l.items()}

RAT_STATS = dict(normalised_to_zero=0, polynomial_form_decided=0)

class Verdict:
    __slots__ = ('exact_unsat', 'margin_unsat', 'sat', 'unknown', 'trivial', 'models')
    def __init__(self):
        self.exact_unsat = self.margin_unsat = self.sat = self.unknown = self.trivial = 0
        self.models = []   # list of (element index, z3 model)
    @property
    def ok(self): return not self.sat and not self.unknown
    def counts(self):
        return dict(exact_unsat=self.exact_unsat, margin_unsat=self.margin_unsat, sat=self.sat, unknown=self.unknown, trivial=self.trivial)

def equiv(ref, other, *, pc=(), defined=(), side=(), timeout_ms=30000, margin=None, box=8, max_models=2, exact_first=True, extra=(), budget_s=None):
    '''Decide "exists inputs: pc & side & defined & ref_i != other_i" per output element.

    margin: None -> exact only.  float -> on exact `sat`, retry as a margin query on the box
    [-box,box] for every real input variable; only a margin `sat` counts as sat.'''
    v = Verdict()
    ra, rb = flat_elems(ref), flat_elems(other)
    if len(ra) != len(rb):
        raise ValueError(f'element count mismatch {len(ra)} vs {len(rb)}')
    s = z3.Solver(); s.set('timeout', timeout_ms)
    s.add(*pc); s.add(*side); s.add(*defined); s.add(*extra); s.add(*_sym.UF_AXIOMS())
    boxed = None
    ratcache, divisor_ok, lemmas = {}, {}, None
    import time as _time
    t_start = _time.time()
    for idx, (a, b) in enumerate(zip(ra, rb)):
        if budget_s is not None and _time.time() - t_start > budget_s:
            v.unknown += 1; continue
        t = neq_term(a, b)
        if t is False:
            v.trivial += 1; continue
        if t is not True:
            ts = z3.simplify(t)
            if z3.is_false(ts):
                v.trivial += 1; continue
        else:
            ts = z3.BoolVal(True)
        r = z3.sat
        # stage 0: rational normal form.  The two elements are written as quotients of polynomials over atoms; z3's rewriter expands the cross-multiplied
        # difference into sum-of-monomials form.  If that is the literal 0 and every divisor is shown non-zero under the assumptions (one query per
        # distinct divisor, cached), the elements are equal for all values: the residual query `0 != 0` is unsat.
        poly = None
        if (exact_first or margin is None) and t is not True:
            try:
                poly = _poly_form(a, b, ratcache)
            except Exception:
                poly = None
            def divisors_nonzero():
                # every divisor met in either element is non-zero under the assumptions (one query per distinct divisor, cached): without this an
                # element that is undefined (x/0) where the reference is defined would be hidden by the cross-multiplication
                for fid, f in poly[1].items():
                    if fid not in divisor_ok:
                        s.push(); s.add(f == 0); rr = timed_check(s); s.pop()
                        divisor_ok[fid] = (rr == z3.unsat)
                    if not divisor_ok[fid]: return False
                return True
            if poly is not None and all(_is_zero(d) for d in poly[0]):
                if divisors_nonzero():
                    v.exact_unsat += 1; RAT_STATS['normalised_to_zero'] += 1; continue
        if poly is not None and (exact_first or margin is None):
            # stage 1: the same question without divisions - some cross-multiplied difference is non-zero while all divisors are non-zero -
            # together with sum-of-monomials copies of the defining equations of fresh variables (roots, norms), so that the linear-arithmetic
            # core can close the goal by treating monomials as variables.  A model of this query is a model of the original one.
            if lemmas is None: lemmas = side_lemmas(list(side) + list(pc), ratcache)
            s.push(); s.set('timeout', min(timeout_ms, 8000))
            s.add(z3.Or(*[d != 0 for d in poly[0]])); s.add(*[f != 0 for f in poly[1].values()]); s.add(*lemmas)
            r1 = timed_check(s)
            m1 = s.model() if r1 == z3.sat else None
            s.pop(); s.set('timeout', timeout_ms)
            if r1 == z3.unsat and divisors_nonzero():
                v.exact_unsat += 1; RAT_STATS['polynomial_form_decided'] += 1; continue
        else:
            r1 = None
        if exact_first or margin is None:
            if r1 == z3.sat:
                r, m = r1, m1
            else:
                s.push(); s.add(ts)
                r = timed_check(s)
                m = s.model() if r == z3.sat else None
                s.pop()
                if r == z3.unsat:
                    v.exact_unsat += 1; continue
        if margin is not None and r != z3.unsat:
            mt = margin_term(a, b, margin)
            if mt is False:
                v.margin_unsat += 1; continue
            if boxed is None:
                allterms = [x.t for x in ra + rb if isinstance(x, Sym) and x.kind in 'if'] + \
                           [y for x in ra + rb if isinstance(x, Sym) and x.kind == 'c' for y in (x.re, x.im)] + list(pc) + list(defined)
                boxed = [z3.And(u >= -box, u <= box) for u in free_real_vars(allterms) if u.sort() == z3.RealSort() and '!' not in str(u)]
            s.push(); s.add(*boxed)
            if mt is not True: s.add(mt)
            r = timed_check(s)
            m = s.model() if r == z3.sat else None
            s.pop()
            if r == z3.unsat:
                v.margin_unsat += 1; continue
        if r == z3.sat:
            v.sat += 1
            if len(v.models) < max_models: v.models.append((idx, m))
        else:
            v.unknown += 1
    return v

def side_lemmas(formulas, cache):
    '''sum-of-monomials copies of the real equations found in the side conditions (under their guards): implied by the originals wherever divisors are non-zero'''
    out = []
    def visit(f, guards):
        if not z3.is_app(f): return
        k = f.decl().kind()
        if k == z3.Z3_OP_AND:
            for c in f.children(): visit(c, guards)
        elif k == z3.Z3_OP_IMPLIES:
            visit(f.arg(1), guards + [f.arg(0)])
        elif k == z3.Z3_OP_EQ and f.arg(0).sort() == z3.RealSort():
            try:
                d, fac = cross_difference(f.arg(0), f.arg(1), cache)
            except Exception:
                return
            g = guards + [x != 0 for x in fac.values()]
            out.append(z3.Implies(z3.And(*g), d == 0) if g else d == 0)
    for f in formulas[:200]: visit(f, [])
    return out

def _poly_form(a, b, cache):
    '''([cross-multiplied differences], {divisor id: divisor}) for two real/complex elements, or None if not applicable'''
    a, b = lift(a), lift(b)
    k = max(a.kind, b.kind, key='bifc'.index)
    if k not in 'fc': return None
    a, b = a.cast(k), b.cast(k)
    pairs = [(a.re, b.re), (a.im, b.im)] if k == 'c' else [(a.t, b.t)]
    diffs, fac = [], {}
    for x, y in pairs:
        d, f = cross_difference(x, y, cache)
        diffs.append(d); fac.update(f)
    return diffs, fac

def holds(claim, *, pc=(), defined=(), side=(), timeout_ms=30000, extra=()):
    '''Decide validity of claim (SBool / z3 Bool / python bool) under pc&side&defined.
    returns ('unsat', None) if valid, ('sat', model), ('unknown', None)'''
    if isinstance(claim, Sym): claim = claim.t
    if isinstance(claim, (bool, numpy.bool_)):
        if claim: return 'unsat', None
        claim = z3.BoolVal(False)
    s = z3.Solver(); s.set('timeout', timeout_ms)
    s.add(*pc); s.add(*side); s.add(*defined); s.add(*extra)
    s.add(z3.Not(claim))
    r = timed_check(s)
    return str(r), (s.model() if r == z3.sat else None)

def satisfiable(terms, timeout_ms=30000):
    s = z3.Solver(); s.set('timeout', timeout_ms)
    s.add(*terms)
    return str(timed_check(s))

# ---------------------------------------------------------------- models -> concrete values

def model_value(m, t):
    v = m.eval(t, model_completion=True)
    if z3.is_int_value(v): return v.as_long()
    if z3.is_rational_value(v): return float(v.as_fraction())
    if z3.is_true(v): return True
    if z3.is_false(v): return False
    if z3.is_algebraic_value(v): return float(v.approx(20).as_fraction())
    raise Unsupported(f'model value {v}')

def concretize(m, x):
    '''SArray/Sym/nested -> numpy arrays using model m'''
    if isinstance(x, dict): return {k: concretize(m, v) for k, v in x.items()}
    if isinstance(x, (tuple, list)): return type(x)(concretize(m, y) for y in x)
    if isinstance(x, SArray):
        out = numpy.empty(x.shape, x.dtype)
        for i in numpy.ndindex(*x.shape):
            out[i] = concretize(m, x.a[i])
        return out
    if isinstance(x, _sym.SCplx): return complex(model_value(m, x.re), model_value(m, x.im))
    if isinstance(x, Sym): return model_value(m, x.t)
    return x
