'''Equivalence queries (one per output element), margin queries, model extraction.'''
import z3, numpy, fractions
from . import sym as _sym
from .sym import Sym, lift, is_concrete, timed_check, Unsupported
from .sarray import SArray

def flat_elems(x):
    '''flatten nested tuples/lists of SArray / ndarray / scalars into a list of elements'''
    if isinstance(x, (tuple, list)):
        out = []
        for y in x: out.extend(flat_elems(y))
        return out
    if isinstance(x, SArray):
        return list(x.a.flat)
    if isinstance(x, Sym):
        return [x]
    a = numpy.asarray(x)
    return list(a.astype(object).flat)

def structure(x):
    '''shape/kind skeleton of a (nested) result, for concrete comparison'''
    if isinstance(x, (tuple, list)):
        return tuple(structure(y) for y in x)
    if isinstance(x, SArray):
        return (x.kind, tuple(x.shape))
    if isinstance(x, Sym):
        return (x.kind, ())
    a = numpy.asarray(x)
    return ({'b': 'b', 'i': 'i', 'u': 'i', 'f': 'f', 'c': 'c'}.get(a.dtype.kind, a.dtype.kind), tuple(a.shape))

def neq_term(a, b):
    '''z3 Bool term "a != b" or a python bool when both are concrete'''
    if is_concrete(a) and is_concrete(b):
        a = a.item() if isinstance(a, numpy.generic) else a
        b = b.item() if isinstance(b, numpy.generic) else b
        return bool(a != b)
    e = lift(a) != b
    if isinstance(e, Sym): return e.t
    return bool(e)

def _abs(t): return z3.If(t >= 0, t, -t)

def margin_term(a, b, rel):
    '''|a-b| > rel*max(1,|a|) for real/complex elements (a is the reference)'''
    a, b = lift(a), lift(b)
    k = max(a.kind, b.kind, key='bifc'.index)
    if k in 'bi': return neq_term(a, b)
    a, b = a.cast(k), b.cast(k)
    r = z3.RealVal(fractions.Fraction(rel))
    if k == 'c':
        d = _abs(a.re - b.re) + _abs(a.im - b.im); m = _abs(a.re) + _abs(a.im)
    else:
        d = _abs(a.t - b.t); m = _abs(a.t)
    return d > r * z3.If(m > 1, m, z3.RealVal(1))

def free_real_vars(terms):
    seen = {}
    def visit(t):
        stack = [t]; done = set()
        while stack:
            u = stack.pop()
            if u.get_id() in done: continue
            done.add(u.get_id())
            if z3.is_const(u) and u.decl().kind() == z3.Z3_OP_UNINTERPRETED:
                seen[str(u)] = u
            else:
                stack.extend(u.children())
    for t in terms:
        if z3.is_expr(t): visit(t)
    return list(seen.values())

class Verdict:
    __slots__ = ('exact_unsat', 'margin_unsat', 'sat', 'unknown', 'trivial', 'models')
    def __init__(self):
        self.exact_unsat = self.margin_unsat = self.sat = self.unknown = self.trivial = 0
        self.models = []   # list of (element index, z3 model)
    @property
    def ok(self): return not self.sat and not self.unknown
    def counts(self):
        return dict(exact_unsat=self.exact_unsat, margin_unsat=self.margin_unsat, sat=self.sat, unknown=self.unknown, trivial=self.trivial)

def equiv(ref, other, *, pc=(), defined=(), side=(), timeout_ms=30000, margin=None, box=8, max_models=2, exact_first=True, extra=(), budget_s=None):
    '''Decide "exists inputs: pc & side & defined & ref_i != other_i" per output element.

    margin: None -> exact only.  float -> on exact `sat`, retry as a margin query on the box
    [-box,box] for every real input variable; only a margin `sat` counts as sat.'''
    v = Verdict()
    ra, rb = flat_elems(ref), flat_elems(other)
    if len(ra) != len(rb):
        raise ValueError(f'element count mismatch {len(ra)} vs {len(rb)}')
    s = z3.Solver(); s.set('timeout', timeout_ms)
    s.add(*pc); s.add(*side); s.add(*defined); s.add(*extra); s.add(*_sym.UF_AXIOMS())
    boxed = None
    import time as _time
    t_start = _time.time()
    for idx, (a, b) in enumerate(zip(ra, rb)):
        if budget_s is not None and _time.time() - t_start > budget_s:
            v.unknown += 1; continue
        t = neq_term(a, b)
        if t is False:
            v.trivial += 1; continue
        if t is not True:
            ts = z3.simplify(t)
            if z3.is_false(ts):
                v.trivial += 1; continue
        else:
            ts = z3.BoolVal(True)
        r = z3.sat
        if exact_first or margin is None:
            s.push(); s.add(ts)
            r = timed_check(s)
            m = s.model() if r == z3.sat else None
            s.pop()
            if r == z3.unsat:
                v.exact_unsat += 1; continue
        if margin is not None and r != z3.unsat:
            mt = margin_term(a, b, margin)
            if mt is False:
                v.margin_unsat += 1; continue
            if boxed is None:
                allterms = [x.t for x in ra + rb if isinstance(x, Sym) and x.kind in 'if'] + \
                           [y for x in ra + rb if isinstance(x, Sym) and x.kind == 'c' for y in (x.re, x.im)] + list(pc) + list(defined)
                boxed = [z3.And(u >= -box, u <= box) for u in free_real_vars(allterms) if u.sort() == z3.RealSort() and '!' not in str(u)]
            s.push(); s.add(*boxed)
            if mt is not True: s.add(mt)
            r = timed_check(s)
            m = s.model() if r == z3.sat else None
            s.pop()
            if r == z3.unsat:
                v.margin_unsat += 1; continue
        if r == z3.sat:
            v.sat += 1
            if len(v.models) < max_models: v.models.append((idx, m))
        else:
            v.unknown += 1
    return v

def holds(claim, *, pc=(), defined=(), side=(), timeout_ms=30000, extra=()):
    '''Decide validity of claim (SBool / z3 Bool / python bool) under pc&side&defined.
    returns ('unsat', None) if valid, ('sat', model), ('unknown', None)'''
    if isinstance(claim, Sym): claim = claim.t
    if isinstance(claim, (bool, numpy.bool_)):
        if claim: return 'unsat', None
        claim = z3.BoolVal(False)
    s = z3.Solver(); s.set('timeout', timeout_ms)
    s.add(*pc); s.add(*side); s.add(*defined); s.add(*extra)
    s.add(z3.Not(claim))
    r = timed_check(s)
    return str(r), (s.model() if r == z3.sat else None)

def satisfiable(terms, timeout_ms=30000):
    s = z3.Solver(); s.set('timeout', timeout_ms)
    s.add(*terms)
    return str(timed_check(s))

# ---------------------------------------------------------------- models -> concrete values

def model_value(m, t):
    v = m.eval(t, model_completion=True)
    if z3.is_int_value(v): return v.as_long()
    if z3.is_rational_value(v): return float(v.as_fraction())
    if z3.is_true(v): return True
    if z3.is_false(v): return False
    if z3.is_algebraic_value(v): return float(v.approx(20).as_fraction())
    raise Unsupported(f'model value {v}')

def concretize(m, x):
    '''SArray/Sym/nested -> numpy arrays using model m'''
    if isinstance(x, dict): return {k: concretize(m, v) for k, v in x.items()}
    if isinstance(x, (tuple, list)): return type(x)(concretize(m, y) for y in x)
    if isinstance(x, SArray):
        out = numpy.empty(x.shape, x.dtype)
        for i in numpy.ndindex(*x.shape):
            out[i] = concretize(m, x.a[i])
        return out
    if isinstance(x, _sym.SCplx): return complex(model_value(m, x.re), model_value(m, x.im))
    if isinstance(x, Sym): return model_value(m, x.t)
    return x
