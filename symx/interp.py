'''Node-wise denotational interpreter for evaluable DAGs (the oracle of C02/C03/C05).

Independent of evaluable.compile: recursive over `dependencies`, memoised per (node, loop environment), no blocks, no
in-place accumulation, no caching of constants.  Each class has a short NumPy denotation written from the class
documentation; loops are unrolled by binding the index to each concrete value and summing / concatenating.
Works on SArray (symbolic) and on plain NumPy values alike.'''
import numpy, operator, z3
from nutils import evaluable as ev
from .sym import Unsupported, ctx, lift, Sym, is_concrete
from .sarray import SArray, npproxy, NPDT

class Interp:
    def __init__(self, args, xp=numpy, wrap=None):
        self.args = args
        self.memo = {}
        self.wrap = wrap or (lambda v, dtype: SArray.wrap(v, {bool: 'b', int: 'i', float: 'f', complex: 'c'}[dtype]))

    def int(self, node, env):
        v = self.eval(node, env)
        if isinstance(v, SArray): return operator.index(v.a[()])
        return int(v)

    def eval(self, node, env=()):
        if isinstance(node, ev.Tuple) or (isinstance(node, ev.Evaluable) and not isinstance(node, ev.Array) and type(node).__name__ == 'Tuple'):
            return tuple(self.eval(item, env) for item in node.items)
        if isinstance(node, tuple):
            return tuple(self.eval(item, env) for item in node)
        deps = node.arguments
        key = (node, tuple((lid, val) for lid, val in env if any(isinstance(a, ev._LoopIndex) and a.loop_id == lid for a in deps)))
        if key in self.memo: return self.memo[key]
        fn = getattr(self, 'n_' + type(node).__name__, None)
        if fn is None:
            for base in type(node).__mro__[1:]:
                fn = getattr(self, 'n_' + base.__name__, None)
                if fn: break
        if fn is None:
            raise Unsupported(f'interp: no denotation for {type(node).__name__}')
        r = fn(node, env)
        self.memo[key] = r
        return r

    E = eval
    def shape(self, node, env): return tuple(self.int(n, env) for n in node.shape)
    def W(self, v, node): return self.wrap(v, node.dtype)

    # ---- leaves
    def n_Constant(self, n, env): return self.W(numpy.array(n.value), n)
    def n_Argument(self, n, env):
        v = SArray.wrap(self.args[n.name])
        want = self.shape(n, env)
        if tuple(v.shape) != want: raise ValueError(f'argument {n.name!r} has shape {v.shape}, expected {want}')
        return v if v.dtype == numpy.dtype(n.dtype) else v.astype(numpy.dtype(n.dtype))
    def n_Zeros(self, n, env): return self.W(numpy.zeros(self.shape(n, env), n.dtype), n)
    def n_Range(self, n, env): return self.W(numpy.arange(self.int(n.length, env)), n)
    def n__LoopIndex(self, n, env):
        for lid, val in reversed(env):
            if lid == n.loop_id: return self.W(numpy.array(val), n)
        raise ValueError(f'loop index {n.loop_id} outside its loop')
    # ---- structure
    def n_InsertAxis(self, n, env):
        f = self.E(n.func, env)
        return numpy.repeat(f[..., numpy.newaxis], self.int(n.length, env), -1)
    def n_Transpose(self, n, env): return numpy.transpose(self.E(n.func, env), n.axes)
    def n_Ravel(self, n, env):
        f = self.E(n.func, env); return f.reshape(f.shape[:-2] + (f.shape[-2] * f.shape[-1],))
    def n_Unravel(self, n, env):
        f = self.E(n.func, env); return f.reshape(f.shape[:-1] + (self.int(n.sh1, env), self.int(n.sh2, env)))
    def n_Diagonalize(self, n, env):
        f = self.E(n.func, env)
        m = f.shape[-1]
        out = SArray.wrap(numpy.zeros(f.shape + (m,), NPDT[f.kind]))
        for i in range(m): out[..., i, i] = f[..., i]
        return out
    def n_TakeDiag(self, n, env):
        f = self.E(n.func, env)
        return numpy.stack([f[..., i, i] for i in range(f.shape[-1])], axis=-1) if f.shape[-1] else f[..., 0]
    def n_Take(self, n, env):
        f = self.E(n.func, env); idx = self.E(n.indices, env)
        return numpy.take(f, idx, axis=-1)
    def n__TakeSlice(self, n, env):
        f = self.E(n.func, env); o = self.int(n.offset, env); l = self.int(n.length, env)
        return f[..., o:o + l]
    def n__Get(self, n, env):
        return numpy.take(self.E(n.func, env), self.E(n.item, env), axis=-1)
    def n_Inflate(self, n, env):
        f = self.E(n.func, env); dof = self.E(n.dofmap, env); length = self.int(n.length, env)
        nd = dof.ndim
        lead = f.shape[:f.ndim - nd]
        out = SArray.wrap(numpy.zeros(lead + (length,), NPDT[f.kind]))
        for j in numpy.ndindex(*dof.shape):
            d = dof.a[j]
            sl = (Ellipsis,) + j if nd else (Ellipsis,)
            if is_concrete(d):
                out[..., int(d)] = out[..., int(d)] + f[sl]
            else:
                numpy.add.at(out, (Ellipsis, SArray.wrap(d)) if False else (slice(None),) * len(lead) + (SArray.wrap(d).reshape(1),), f[sl][..., numpy.newaxis])
        return out
    def n_Find(self, n, env):
        return numpy.nonzero(self.E(n.where, env))[0]
    def n_Guard(self, n, env): return self.E(n.fun, env)
    def n_ArrayFromTuple(self, n, env): return self.E(n.arrays, env)[n.index]
    # ---- reductions / products
    def n_Sum(self, n, env):
        f = self.E(n.func, env)
        return numpy.any(f, axis=-1) if f.kind == 'b' else numpy.sum(f, axis=-1)
    def n_Product(self, n, env):
        f = self.E(n.func, env)
        return numpy.all(f, axis=-1) if f.kind == 'b' else numpy.prod(f, axis=-1)
    def n_Multiply(self, n, env):
        a, b = (self.E(f, env) for f in n.funcs)
        return a * b
    def n_Add(self, n, env):
        a, b = (self.E(f, env) for f in n.funcs)
        return a + b
    def n_Einsum(self, n, env):
        letters = 'abcdefghijklmnop'
        fmt = ','.join(''.join(letters[i] for i in idx) for idx in n.args_idx) + '->' + ''.join(letters[i] for i in n.out_idx)
        return numpy.einsum(fmt, *[self.E(a, env) for a in n.args])
    def n_Power(self, n, env): return numpy.power(self.E(n.func, env), self.E(n.power, env))
    def n_Determinant(self, n, env): return numpy.linalg.det(self.E(n.func, env))
    def n_Inverse(self, n, env): return numpy.linalg.inv(self.E(n.func, env))
    def n_Sign(self, n, env): return numpy.sign(self.E(n.func, env))
    # ---- pointwise
    def _pw(self, n, env): return [self.E(d, env) for d in n.dependencies]
    def n_Negative(self, n, env): return -self._pw(n, env)[0]
    def n_Reciprocal(self, n, env): return numpy.reciprocal(self._pw(n, env)[0])
    def n_Absolute(self, n, env): return numpy.absolute(self._pw(n, env)[0])
    def n_FloorDivide(self, n, env): a, b = self._pw(n, env); return a // b
    def n_Mod(self, n, env): a, b = self._pw(n, env); return a % b
    def n_Minimum(self, n, env): return numpy.minimum(*self._pw(n, env))
    def n_Maximum(self, n, env): return numpy.maximum(*self._pw(n, env))
    def n_Greater(self, n, env): a, b = self._pw(n, env); return a > b
    def n_Less(self, n, env): a, b = self._pw(n, env); return a < b
    def n_Equal(self, n, env): a, b = self._pw(n, env); return a == b
    def n_LogicalNot(self, n, env): return numpy.logical_not(self._pw(n, env)[0])
    def n_Conjugate(self, n, env): return numpy.conjugate(self._pw(n, env)[0])
    def n_Real(self, n, env): return numpy.real(self._pw(n, env)[0])
    def n_Imag(self, n, env): return numpy.imag(self._pw(n, env)[0])
    def n_ArcTan2(self, n, env): return numpy.arctan2(*self._pw(n, env))
    def n_Cast(self, n, env): return self._pw(n, env)[0].astype(numpy.dtype(n.dtype))
    for _cls, _fn in dict(Cos='cos', Sin='sin', Tan='tan', ArcSin='arcsin', ArcCos='arccos', ArcTan='arctan', CosH='cosh', SinH='sinh', TanH='tanh',
                          ArcTanH='arctanh', Exp='exp', Log='log').items():
        locals()['n_' + _cls] = (lambda fn: lambda self, n, env: getattr(numpy, fn)(self._pw(n, env)[0]))(_fn)
    def n_Choose(self, n, env):
        idx = self.E(n.index, env); ch = self.E(n.choices, env)
        return numpy.choose(idx, [ch[..., k] for k in range(ch.shape[-1])])
    def n_InRange(self, n, env):
        idx = self.E(n.index, env); length = self.E(n.length, env)
        L = lift(length.a[()], 'i')
        for x in idx.a.flat:
            c = lift(x, 'i'); ctx().defined.append(z3.And(c.t >= 0, c.t < L.t))
        return idx
    def n_NormDim(self, n, env):
        length = self.E(n.length, env); idx = self.E(n.index, env)
        out = numpy.empty(idx.shape, object)
        for i in numpy.ndindex(*idx.shape):
            L, x = lift(length.a[i], 'i'), lift(idx.a[i], 'i')
            ctx().defined.append(z3.And(x.t >= -L.t, x.t < L.t))
            out[i] = (x + L) % L if not (is_concrete(length.a[i]) and is_concrete(idx.a[i])) else (idx.a[i] + length.a[i]) % length.a[i]
        return SArray(out, 'i')
    def n_RavelIndex(self, n, env):
        ia = self.E(n.ia, env); ib = self.E(n.ib, env); nb = self.int(n.nb, env)
        return ia[(Ellipsis,) + (numpy.newaxis,) * ib.ndim] * nb + ib
    def n_Legendre(self, n, env):
        x = self.E(n.x, env)
        P = [x * 0 + 1., x][:n.degree + 1]
        for i in range(2, n.degree + 1):
            P.append(((2 * i - 1) * x * P[i - 1] - (i - 1) * P[i - 2]) / i)
        return numpy.stack(P, axis=-1)
    def n_Polyval(self, n, env):
        from .run import _POP
        return _POP.eval_outer(self.E(n.coeffs, env), self.E(n.points, env))
    def n_SearchSorted(self, n, env):
        arg = self.E(n.arg, env); arr = self.E(n.array, env)
        sorter = self.E(n.sorter, env) if n.sorter is not None else None
        return numpy.searchsorted(arr, arg, side=n.side, sorter=sorter).astype(int)
    def n__SizesToOffsets(self, n, env):
        s = self.E(n.sizes, env)
        return numpy.concatenate([SArray.wrap(numpy.zeros(1, int)), numpy.cumsum(s)])
    def n_AssertEqual(self, n, env):
        a, b = self.E(n.a, env), self.E(n.b, env)
        for x, y in zip(a.a.flat, b.a.flat):
            c = lift(x) == y
            ctx().defined.append(c.t if isinstance(c, Sym) else z3.BoolVal(bool(c)))
        return a
    # ---- loops
    def n_LoopSum(self, n, env):
        L = self.int(n.length, env)
        shape = self.shape(n, env)
        out = SArray.wrap(numpy.zeros(shape, n.dtype))
        for i in range(L):
            out = out + self.E(n.func, env + ((n.loop_id, i),))
        return out
    def n_LoopConcatenate(self, n, env):
        L = self.int(n.length, env)
        parts = [self.E(n.func, env + ((n.loop_id, i),)) for i in range(L)]
        if not parts:
            return SArray.wrap(numpy.zeros(self.shape(n, env), n.dtype))
        return numpy.concatenate(parts, axis=-1)

def denote(expr, args):
    '''value of an evaluable / nested tuple of evaluables at the given argument values'''
    it = Interp(args)
    def walk(x):
        if isinstance(x, (tuple, list)): return tuple(walk(y) for y in x)
        return it.eval(x)
    return walk(expr)
