'''Translation-validation driver: run (reference, transformed) on the same symbolic arguments,
decide equivalence per output element, replay counterexamples on the real code.'''
import numpy, z3, time, warnings, traceback
from nutils import evaluable as ev
from . import sym as _sym, progs, solve
from .sym import explore, ctx, Unsupported, PathAbort
from .sarray import SArray
from .run import sym_compile
from .harness import with_timeout, Timeout

def _snapshot_defined():
    return list(ctx().defined)

def compare_runs(ref_fn, other_fn, names, *, max_paths=16, timeout_ms=20000, margin=None, extra_assume=(), prefix='', budget_s=20):
    '''ref_fn(vals)->result, other_fn(vals)->result, both on symbolic args.
    returns dict(verdict counts, models=[(argvals, idx)], status)'''
    out = dict(paths=0, exhaustive=True, q=dict(exact_unsat=0, margin_unsat=0, sat=0, unknown=0, trivial=0), models=[], notes=[], struct_mismatch=None,
               ref_exc=0, other_exc=[], unsupported=[])
    holder = {}
    def run():
        vals, assume = progs.symbolic_args(names, prefix)
        holder['vals'] = vals
        r0 = ref_fn(vals)
        d0 = _snapshot_defined()
        try:
            r1 = other_fn(vals)
        except (PathAbort, Unsupported):
            raise
        except Exception as e:
            return ('other_exc', r0, d0, e, vals)
        return ('ok', r0, d0, r1, vals)
    _, assume = progs.symbolic_args(names, prefix)
    paths, exhaustive = explore(run, assumptions=list(assume) + list(extra_assume), max_paths=max_paths, timeout_ms=timeout_ms)
    out['paths'] = len(paths); out['exhaustive'] = exhaustive
    for P in paths:
        if P.tag == 'exc':
            out['ref_exc'] += 1; out['notes'].append(f'ref raised {type(P.value).__name__}: {str(P.value)[:80]}'); continue
        if P.tag == 'unsupported':
            out['unsupported'].append(str(P.value)[:100]); continue
        if P.tag == 'abort':
            if 'infeasible' not in str(P.value): out['notes'].append(f'abort: {P.value}')
            continue
        kind, r0, d0, r1, vals = P.value
        if kind == 'other_exc':
            # the transformed program raised where the reference did not: candidate, needs a witness input
            s = z3.Solver(); s.set('timeout', timeout_ms); s.add(*P.pc, *P.side, *d0)
            r = _sym.timed_check(s)
            if r == z3.sat:
                out['other_exc'].append((f'{type(r1).__name__}: {str(r1)[:120]}', solve.concretize(s.model(), vals)))
            elif r == z3.unknown:
                out['q']['unknown'] += 1
            continue
        s0, s1 = solve.structure(r0), solve.structure(r1)
        if s0 != s1:
            out['struct_mismatch'] = (s0, s1); continue
        try:
            v = solve.equiv(r0, r1, pc=P.pc, defined=d0, side=P.side, timeout_ms=timeout_ms, margin=margin, budget_s=budget_s)
        except Unsupported as e:
            out['unsupported'].append(str(e)[:100]); continue
        for k, n in v.counts().items(): out['q'][k] += n
        for idx, m in v.models:
            out['models'].append((solve.concretize(m, vals), idx))
    return out

def finite(x):
    if isinstance(x, (tuple, list)): return all(finite(y) for y in x)
    a = numpy.asarray(x)
    return a.dtype.kind not in 'fc' or bool(numpy.isfinite(a).all())

def same(a, b, rtol=1e-9):
    if isinstance(a, (tuple, list)):
        return isinstance(b, (tuple, list)) and len(a) == len(b) and all(same(x, y, rtol) for x, y in zip(a, b))
    a, b = numpy.asarray(a), numpy.asarray(b)
    if a.shape != b.shape or a.dtype.kind != b.dtype.kind: return False
    if a.dtype.kind in 'fc':
        return bool(numpy.allclose(a, b, rtol=rtol, atol=1e-9 * max(1., float(numpy.abs(a).max()) if a.size else 1.)))
    return bool((a == b).all())

import types as _pytypes
class _PoisonNP(_pytypes.ModuleType):
    '''real numpy whose empty() is filled with a recognisable value: the symbolic runs treat uninitialised memory as arbitrary, so a counterexample that
    reads an entry that was never written reproduces deterministically in the replay (fresh memory is usually zero otherwise)'''
    def __init__(s): super().__init__('numpy_poisoned')
    def __getattr__(s, n): return getattr(numpy, n)
    @staticmethod
    def empty(shape, dtype=float, **kw):
        dt = numpy.dtype(dtype)
        fill = {'f': 12345.678, 'c': 12345.678 - 321.5j, 'i': 7919, 'u': 7919, 'b': True}.get(dt.kind, 0)
        return numpy.full(shape, fill, dtype=dt)
    @staticmethod
    def empty_like(a, dtype=None, **kw):
        return _PoisonNP.empty(numpy.shape(a), dtype or numpy.asarray(a).dtype)
POISON = _PoisonNP()

def concrete_eval(e, args, strict=False, **cfg):
    '''strict: floating point invalid/divide conditions in ANY intermediate raise (the input is outside the domain of e)'''
    with warnings.catch_warnings():
        warnings.simplefilter('ignore')
        f = ev.compile(e, cache_const_intermediates=False, **cfg)
        f.__globals__['numpy'] = POISON
        saved = ev.numpy; ev.numpy = POISON
        try:
            with numpy.errstate(**(dict(invalid='raise', divide='raise', over='raise', under='ignore') if strict else dict(all='ignore'))):
                return f({k: numpy.array(v) for k, v in args.items()})
        finally:
            ev.numpy = saved

def tolist(x):
    if isinstance(x, dict): return {k: tolist(v) for k, v in x.items()}
    if isinstance(x, (tuple, list)): return [tolist(y) for y in x]
    a = numpy.asarray(x)
    if a.dtype.kind == 'c': return [str(v) for v in a.ravel().tolist()]
    return a.tolist()

def reference_eval(e, vals):
    """oracle value of an evaluable: the independent interpreter where it has denotations for every node, otherwise the
    script generated WITHOUT simplification and optimisation passes (flagged 'self-referential' by callers)"""
    from . import interp
    import treelog
    try:
        return interp.denote(e, vals), 'interp'
    except Unsupported as ex:
        if 'interp: no denotation' not in str(ex): raise
    with treelog.set(treelog.NullLog()):
        return sym_compile(e, _simplify=False, _optimize=False)(vals), 'unoptimised-script'
