'''Bounded families of evaluable programs (DESIGN section 3).

A program is an s-expression (nested tuples of str/int/float) that `build` turns into a
nutils evaluable through the public constructors.  The canonical text `show(p)` is what
replay files and known_findings.json refer to.
'''
import numpy, itertools, random, functools, z3
from nutils import evaluable as ev

C = ev.constant

# name -> (shape, dtype, (lo, hi) or None)   int arguments carry declared value ranges (assumptions)
ARGS = {
    'x': ((3,), float, None), 'y': ((3,), float, None), 'w': ((2,), float, None),
    'M': ((3, 3), float, None), 'N': ((3, 3), float, None), 'B': ((2, 3), float, None), 'Q': ((2, 2), float, None),
    'T': ((3, 3, 2), float, None), 'U': ((3, 3, 2), float, None),
    's': ((), float, None),
    'z': ((2,), complex, None), 'Z': ((3,), complex, None),
    'm': ((3,), bool, None),
    # equal-length axes: an axis mix-up in a rewrite rule is silent (no shape error) only when the lengths agree
    'K': ((2, 2, 2), float, None), 'L': ((2, 2, 2), float, None), 'R': ((4, 2, 2), float, None), 'P': ((2, 3, 2), float, None), 'H': ((2, 2, 3), float, None),
    'u': ((2,), float, None), 'v': ((2,), float, None), 'W': ((2, 2), float, None), 'F': ((2, 2, 2, 2), float, None),
    'c': ((2, 2, 2), int, (0, 1)),
    'n': ((), int, (0, 2)), 'k': ((2,), int, (0, 2)), 'j': ((3,), int, (-3, 3)), 'p': ((3,), int, (0, 1)),
}

CVECS = {
    'perm3': numpy.array([2, 0, 1]), 'rev3': numpy.array([2, 1, 0]), 'dup3': numpy.array([2, 0, 2]), 'sub2': numpy.array([0, 2]),
    'one1': numpy.array([1]), 'neg2': numpy.array([-1, 0]), 'id3': numpy.array([0, 1, 2]), 'dup2': numpy.array([1, 1]),
    'fvec3': numpy.array([1., -2., .5]), 'fmat': numpy.array([[1., 2., 0.], [0., -1., .5], [0., 0., 3.]]), 'bvec3': numpy.array([True, False, True]),
    'ivec3': numpy.array([1, -2, 3]), 'perm2': numpy.array([1, 0]),
    # multi-axis index blocks (Inflate/Take with index.ndim > 1); idx223 has distinct entries in range(12), dup223 repeats some, idx22 is 2-d
    'idx223': numpy.array([[[5, 0, 7], [2, 9, 4]], [[11, 6, 1], [8, 3, 10]]]), 'dup223': numpy.array([[[5, 0, 7], [2, 5, 4]], [[1, 6, 1], [8, 3, 0]]]),
    'dup3b': numpy.array([0, 0, 2]), 'div4': numpy.array([5, 4, 2, 3]), 'div3': numpy.array([2, 3, 7]), 'idiv4': numpy.array([3, -2, 2, -5]),
    'blk22': numpy.array([[0, 1], [1, 0]]), 'blk22b': numpy.array([[1, 1], [0, 0]]), 'blk32': numpy.array([[0, 2], [1, 1], [2, 0]]),
    'idx232': numpy.array([[[5, 0], [7, 2], [9, 4]], [[11, 6], [1, 8], [3, 10]]]), 'idx22': numpy.array([[3, 0], [1, 2]]), 'dup22': numpy.array([[1, 0], [1, 2]]),
}

def arg(name):
    shape, dtype, rng = ARGS[name]
    return ev.Argument(name, tuple(C(n) for n in shape), dtype)

class IllTyped(Exception): pass

def _ax(a, i):
    if not -a.ndim <= i < a.ndim: raise IllTyped
    return i % a.ndim

def _lidx(name, n):
    return ev.loop_index(name, n)

def _perm(a, code):
    perms = {'r': tuple(reversed(range(a.ndim))), 'c': tuple(range(1, a.ndim)) + (0,) if a.ndim else ()}
    if a.ndim < 2: raise IllTyped
    return ev.transpose(a, perms[code])

def _f(a):
    if a.dtype in (bool, int): return ev.astype(a, float)
    return a

OPS = {
    # leaves
    'arg': lambda name: arg(name),
    'cf': lambda v: C(float(v)),
    'ci': lambda v: C(int(v)),
    'cb': lambda v: C(bool(v)),
    'i2f': lambda v: ev.astype(int(v), float),
    'cvec': lambda name: C(CVECS[name]),
    'range': lambda n: ev.Range(C(n)),
    'lidx': _lidx,
    # argument-dependent lengths: loop trip count / inserted axis length max(n, 0) for the int argument n (declared range 0..2)
    'lidxn': lambda name, argname: ev.loop_index(name, ev.Maximum(arg(argname), C(0))),
    'insertaxisn': lambda a, axis, argname: ev.insertaxis(a, _ax2(a, axis), ev.Maximum(arg(argname), C(0))),
    # loop-dependent axis length: arange(i+1) for the loop index i (element-dependent block sizes of an assembly loop)
    'lrange': lambda idx: ev.Range(idx + 1),
    'inflatev': lambda a, idx, n, axis: ev._inflate(a, idx, C(n), _ax(a, axis)),
    'zeros': lambda *shape: ev.zeros(tuple(C(n) for n in shape)),
    'ones': lambda *shape: ev.ones(tuple(C(n) for n in shape)),
    # unary pointwise
    'neg': lambda a: ev.negative(a) if a.dtype != bool else _ill(), 'abs': lambda a: ev.abs(a) if a.dtype != bool else _ill(), 'sign': lambda a: ev.sign(a) if a.dtype != bool else _ill(), 'sqrt': ev.sqrt, 'sin': ev.sin, 'cos': ev.cos, 'tan': ev.tan, 'exp': ev.exp,
    'ln': ev.ln, 'arctan': ev.arctan, 'arcsin': ev.arcsin, 'tanh': ev.tanh, 'sinh': ev.sinh, 'cosh': ev.cosh, 'reciprocal': ev.reciprocal,
    'conj': ev.conjugate, 'real': ev.real, 'imag': ev.imag,
    'tofloat': lambda a: ev.astype(a, float), 'toint': lambda a: ev.astype(a, int), 'tocomplex': lambda a: ev.astype(a, complex),
    'not': lambda a: ev.LogicalNot(a),
    'gt0': lambda a: ev.Greater(a, ev.zeros_like(a)), 'lt0': lambda a: ev.Less(a, ev.zeros_like(a)), 'eq0': lambda a: ev.Equal(a, ev.zeros_like(a)),
    'square': lambda a: ev.power(a, 2) if a.dtype != bool else _ill(), 'cube': lambda a: ev.power(a, 3),
    'pow_f': lambda a, v: ev.power(a, C(float(v))),
    'pow_i2f': lambda a, v: ev.power(a, ev.astype(int(v), float)),
    # structural unary
    'sum': lambda a, axis: ev.sum(a, _ax(a, axis)),
    'product': lambda a, axis: ev.product(a, _ax(a, axis)),
    'insertaxis': lambda a, axis, n: ev.insertaxis(a, _ax2(a, axis), C(n)),
    'transpose': _perm,
    'swap': lambda a, i, j: ev.swapaxes(a, _ax(a, i), _ax(a, j)),
    'takediag': lambda a, i, j: _takediag(a, i, j),
    'diagonalize': lambda a, i, j: ev.diagonalize(a, _ax(a, i), _ax2(a, j)),
    'ravel': lambda a, axis: ev.ravel(a, _ax(a, axis)) if a.ndim >= 2 and _ax(a, axis) < a.ndim - 1 else _ill(),
    'unravel': lambda a, axis, n1, n2: ev.unravel(a, _ax(a, axis), (C(n1), C(n2))) if _len(a, _ax(a, axis)) == n1 * n2 else _ill(),
    'take': lambda a, idx, axis: ev.take(a, _inrange_idx(idx, a, axis), _ax(a, axis)) if idx.ndim == 1 else (ev.get(a, _ax(a, axis), ev.InRange(idx, a.shape[_ax(a, axis)])) if idx.ndim == 0 and idx.dtype == int else _ill()),
    'get': lambda a, axis, item: ev.get(a, _ax(a, axis), C(item)) if -_len(a, _ax(a, axis)) <= item < _len(a, _ax(a, axis)) else _ill(),
    'inflate': lambda a, idx, n, axis: ev._inflate(a, idx, C(n), _ax(a, axis)) if tuple(_shape(a)[_ax(a, axis):_ax(a, axis) + idx.ndim]) == _shape(idx) else _ill(),
    'taken': lambda a, idx, axis: ev._take(a, _inrange_idx(idx, a, axis), _ax(a, axis)),   # index block of any dimension
    'det': lambda a: ev.determinant(a) if a.ndim >= 2 else _ill(), 'inv': lambda a: ev.inverse(a) if a.ndim >= 2 else _ill(),
    'guard': lambda a: ev.Guard(a),
    'legendre': lambda a, d: ev.Legendre(a, d),
    'normdim': lambda a, n: ev.NormDim(ev.appendaxes(C(n), a.shape) if a.ndim else C(n), a) if a.dtype == int and -n <= a._intbounds[0] and a._intbounds[1] < n else _ill(),
    'inrange': lambda a, n: ev.InRange(a, C(n)) if not (isinstance(a, ev.Constant) and a.value.size and (a.value.min() < 0 or a.value.max() >= n)) else _ill(),     # an out-of-range constant is an ill-typed program
    # binary
    'add': lambda a, b: ev.add(a, b), 'sub': lambda a, b: ev.subtract(a, b), 'mul': lambda a, b: ev.multiply(a, b),
    'div': lambda a, b: ev.divide(a, b), 'pow': lambda a, b: ev.power(a, b),
    'min': lambda a, b: ev.Minimum(*_align(a, b)) if a.dtype == b.dtype and a.dtype in (int, float) else _ill(),
    'max': lambda a, b: ev.Maximum(*_align(a, b)) if a.dtype == b.dtype and a.dtype in (int, float) else _ill(),
    'mod': lambda a, b: ev.mod(a, b) if a.dtype == b.dtype and a.dtype in (int, float) else _ill(),
    'floordiv': lambda a, b: ev.FloorDivide(*_align(a, b)) if a.dtype == b.dtype and a.dtype in (int, float) else _ill(),
    'gt': lambda a, b: ev.Greater(*_align(a, b)) if a.dtype == b.dtype and a.dtype in (int, float) else _ill(),
    'lt': lambda a, b: ev.Less(*_align(a, b)) if a.dtype == b.dtype and a.dtype in (int, float) else _ill(),
    'eq': lambda a, b: ev.Equal(*_align(a, b)) if a.dtype == b.dtype else _ill(),
    'arctan2': lambda a, b: ev.arctan2(a, b) if a.dtype == b.dtype == float else _ill(),
    'dot': lambda a, b, axis: ev.dot(*_align(a, b), (_ax(a, axis),)) if a.ndim else _ill(),
    'matvec': lambda a, b: ev.einsum('ij,j->i', a, b), 'matmat': lambda a, b: ev.einsum('ij,jk->ik', a, b), 'outer': lambda a, b: ev.einsum('i,j->ij', a, b),
    'stack': lambda a, b, axis: ev.stack([a, b], axis), 'concat': lambda a, b, axis: ev.concatenate([a, b], axis),
    'choose': lambda i, a, b: ev.Choose(i, ev.stack(_align(a, b), -1)) if _shape(i) == _shape(_align(a, b)[0]) else _ill(),
    'polyval1': lambda pts, co: ev.Polyval(co, ev.InsertAxis(pts, C(1))),   # 1-variable polynomial, coefficient axis last
    'polyval2': lambda pts, co: ev.Polyval(co, pts),
    'searchsorted': lambda a, name: ev.SearchSorted(a, C(numpy.sort(CVECS[name])), None, 'left') if a.dtype == int else _ill(),
    # loops: (loop_sum body idx) where body contains ('lidx', name, n)
    'loop_sum': lambda body, idx: ev.loop_sum(body, idx),
    'loop_concat': lambda body, idx: ev.loop_concatenate(body, idx) if body.ndim else _ill(),
}

def _ill(): raise IllTyped
def _inrange_idx(idx, a, axis):
    '''constant index vectors must lie inside the axis (an out-of-range constant index is an ill-typed program, not an input on which the original is defined)'''
    if isinstance(idx, ev.Constant):
        n = _len(a, _ax(a, axis)); v = numpy.asarray(idx.value)
        if v.size and (v.min() < -n or v.max() >= n): raise IllTyped
    return idx
def _len(a, i):
    n = a.shape[i]
    return int(n.value) if isinstance(n, ev.Constant) else int(n)
def _shape(a): return tuple(_len(a, i) for i in range(a.ndim))
def _ax2(a, i):
    if not -a.ndim - 1 <= i <= a.ndim: raise IllTyped
    return i % (a.ndim + 1)
def _align(a, b):
    return ev._numpy_align(a, b)
def _takediag(a, i, j):
    i, j = _ax(a, i), _ax(a, j)
    if i == j or _len(a, i) != _len(a, j): raise IllTyped
    return ev.takediag(a, i, j)

def build(p, _memo=None):
    '''s-expression -> evaluable (raises IllTyped for programs nutils rejects at construction)'''
    if _memo is None: _memo = {}
    if not isinstance(p, tuple): return p
    if p in _memo: return _memo[p]
    op, *rest = p
    if op == 'tuple':
        r = ev.Tuple(tuple(build(q, _memo) for q in rest))
    else:
        fn = OPS[op]
        args = [build(q, _memo) for q in rest]
        try:
            r = fn(*args)
            r.dtype, r.shape
        except IllTyped:
            raise
        except Exception as e:
            raise IllTyped(f'{op}: {type(e).__name__}: {e}')
    _memo[p] = r
    return r

def show(p):
    if isinstance(p, tuple): return '(' + ' '.join(show(q) for q in p) + ')'
    return repr(p) if not isinstance(p, str) else p

def parse(s):
    '''inverse of show'''
    toks = s.replace('(', ' ( ').replace(')', ' ) ').split()
    def rd(i):
        if toks[i] == '(':
            out = []; i += 1
            while toks[i] != ')':
                v, i = rd(i); out.append(v)
            return tuple(out), i + 1
        t = toks[i]
        for conv in (int, float):
            try: return conv(t), i + 1
            except ValueError: pass
        return t, i + 1
    v, i = rd(0)
    assert i == len(toks)
    return v

def used_args(p, out=None):
    if out is None: out = []
    if isinstance(p, tuple):
        if p[0] in ('lidxn', 'insertaxisn'):
            if p[-1] not in out: out.append(p[-1])
            if p[0] == 'insertaxisn': used_args(p[1], out)
        elif p[0] == 'arg':
            if p[1] not in out: out.append(p[1])
        else:
            for q in p[1:]: used_args(q, out)
    return out

def depth(p):
    if not isinstance(p, tuple) or p[0] in ('arg', 'cf', 'ci', 'cb', 'i2f', 'cvec', 'range', 'lidx', 'lidxn', 'zeros', 'ones'): return 0
    return 1 + max([depth(q) for q in p[1:]] + [0])

# ---------------------------------------------------------------- symbolic argument values

def symbolic_args(names, prefix=''):
    '''returns (dict name -> SArray, list of z3 assumptions for declared int ranges)'''
    from .sarray import SArray
    vals, assume = {}, []
    for n in names:
        shape, dtype, rng = ARGS[n]
        kind = {float: 'f', int: 'i', bool: 'b', complex: 'c'}[dtype]
        vals[n] = SArray.symbolic(prefix + n, shape, kind)
        if rng:
            for e in vals[n].a.flat:
                assume.append(z3.And(e.t >= rng[0], e.t <= rng[1]))
    return vals, assume

# ---------------------------------------------------------------- enumeration

FLEAVES = [('arg', 'x'), ('arg', 'y'), ('arg', 'M'), ('arg', 'B'), ('arg', 's'), ('arg', 'w'), ('cvec', 'fvec3'), ('cf', 2.0), ('cf', -1.0), ('cf', 0.5), ('i2f', 2),
           ('zeros', 3), ('ones', 3, 3)]
ILEAVES = [('arg', 'n'), ('arg', 'k'), ('arg', 'j'), ('arg', 'p'), ('ci', 2), ('ci', -1), ('ci', 0), ('cvec', 'perm3'), ('cvec', 'ivec3'), ('range', 3)]
BLEAVES = [('arg', 'm'), ('cvec', 'bvec3'), ('cb', 1)]
CLEAVES = [('arg', 'z'), ('arg', 'Z')]
XLEAVES = [('arg', 'T'), ('arg', 'N'), ('arg', 'Q')]
LEAVES = FLEAVES + ILEAVES + BLEAVES + CLEAVES

def unary_forms(a):
    '''all unary constructor applications on sub-program a (parameters enumerated)'''
    U = ['neg', 'abs', 'sign', 'sqrt', 'sin', 'cos', 'exp', 'ln', 'arctan', 'tanh', 'tan', 'arcsin', 'sinh', 'cosh', 'reciprocal', 'conj', 'real', 'imag', 'tofloat', 'toint', 'tocomplex',
         'not', 'gt0', 'lt0', 'eq0', 'square', 'cube', 'det', 'inv', 'guard']
    for u in U: yield (u, a)
    for v in (2, 4): yield ('pow_i2f', a, v)
    for v in (0.5, -1.0, 2.0, 3.0): yield ('pow_f', a, v)
    for axis in (0, 1, -1):
        yield ('sum', a, axis); yield ('product', a, axis)
        yield ('insertaxis', a, axis, 2); yield ('insertaxis', a, axis, 1)
        yield ('ravel', a, axis)
        yield ('get', a, axis, 0); yield ('get', a, axis, 2)
        for iv in ('perm3', 'dup3', 'sub2', 'one1', 'perm2'):
            yield ('take', a, ('cvec', iv), axis)
        yield ('take', a, ('arg', 'k'), axis)
        yield ('take', a, ('arg', 'n'), axis)
        for iv, n in (('perm3', 3), ('dup3', 4), ('sub2', 3), ('perm2', 2), ('dup2', 3)):
            yield ('inflate', a, ('cvec', iv), n, axis)
    yield ('unravel', a, 0, 3, 1); yield ('unravel', a, -1, 1, 3); yield ('unravel', a, 0, 1, 2)
    yield ('transpose', a, 'r'); yield ('transpose', a, 'c'); yield ('swap', a, 0, -1)
    for i, j in ((0, 1), (0, 2), (-2, -1)):
        yield ('takediag', a, i, j)
    for i, j in ((0, 1), (-1, -1), (0, 0), (-1, 0)):
        yield ('diagonalize', a, i, j)
    yield ('legendre', a, 2)
    yield ('normdim', a, 3); yield ('inrange', a, 4)
    yield ('searchsorted', a, 'ivec3')
    # loops over a
    yield ('loop_sum', ('mul', ('take', a, ('lidx', 'i', 3), 0), ('tofloat', ('lidx', 'i', 3))), ('lidx', 'i', 3))
    yield ('loop_sum', ('take', a, ('lidx', 'i', 3), -1), ('lidx', 'i', 3))
    yield ('loop_concat', ('insertaxis', ('take', a, ('lidx', 'i', 3), 0), -1, 1), ('lidx', 'i', 3))
    yield ('loop_concat', ('take', a, ('range', 2), 0), ('lidx', 'l', 2))
    yield ('loop_sum', ('inflate', ('insertaxis', ('take', a, ('lidx', 'i', 3), 0), 0, 1), ('insertaxis', ('lidx', 'i', 3), 0, 1), 3, 0), ('lidx', 'i', 3))

def binary_forms(a, b):
    for o in ('add', 'sub', 'mul', 'div', 'pow', 'min', 'max', 'mod', 'floordiv', 'gt', 'lt', 'eq', 'arctan2', 'matvec', 'matmat', 'outer', 'polyval1', 'polyval2'):
        yield (o, a, b)
    for axis in (0, -1):
        yield ('dot', a, b, axis); yield ('stack', a, b, axis); yield ('concat', a, b, axis)
    yield ('choose', ('arg', 'p'), a, b)
    yield ('choose', ('gt0', a), a, b) if False else ('choose', ('toint', ('gt0', a)), a, b)

def typed(progs):
    '''filter programs that build; yields (program, evaluable)'''
    for p in progs:
        try:
            e = build(p)
        except IllTyped:
            continue
        yield p, e

def depth1():
    for a in LEAVES + XLEAVES:
        yield from unary_forms(a)
    for a in LEAVES:
        for b in LEAVES:
            yield from binary_forms(a, b)

def depth2(sub=None):
    '''unary over depth-1, binary with one depth-1 operand'''
    d1 = [p for p, e in typed(depth1())] if sub is None else sub
    for a in d1:
        yield from unary_forms(a)
    short = [('arg', 'x'), ('arg', 'M'), ('arg', 's'), ('cf', 2.0), ('arg', 'n'), ('arg', 'j'), ('arg', 'm'), ('arg', 'Z'), ('cvec', 'fvec3')]
    for a in d1:
        for b in short:
            for o in ('add', 'mul', 'div', 'pow', 'min', 'mod', 'gt', 'matvec', 'sub'):
                yield (o, a, b); yield (o, b, a)
        # sharing: both operands identical
        for o in ('add', 'mul', 'sub', 'div', 'min', 'eq', 'outer'):
            yield (o, a, a)

PRIORITY = ['transpose', 'ravel', 'insertaxis', 'inflate', 'diagonalize', 'mul', 'add', 'loop_sum', 'sign', 'pow_f', 'pow_i2f', 'square', 'inv', 'unravel',
            'product', 'det', 'sum', 'take', 'takediag', 'sqrt']

def head(p): return p[0] if isinstance(p, tuple) else None

def depth3_priority(d2):
    '''depth-3 programs whose three top constructors all belong to the simplifier's priority classes'''
    for a in d2:
        if head(a) in PRIORITY and isinstance(a[1], tuple) and head(a[1]) in PRIORITY:
            for f in unary_forms(a):
                if head(f) in PRIORITY: yield f
            for b in (('arg', 'x'), ('arg', 'M'), ('cf', 2.0)):
                yield ('mul', a, b); yield ('add', a, b)

def random_program(rng, maxdepth, leaves=None):
    leaves = leaves or (LEAVES + XLEAVES)
    def gen(d):
        if d == 0 or rng.random() < .15: return rng.choice(leaves)
        a = gen(d - 1)
        if rng.random() < .6:
            forms = list(unary_forms(a))
        else:
            b = gen(rng.randrange(d))
            forms = list(binary_forms(a, b)) + list(binary_forms(b, a))
        rng.shuffle(forms)
        for p in forms[:40]:
            try:
                build(p); return p
            except IllTyped:
                continue
        return a
    return gen(maxdepth)

# ---------------------------------------------------------------- targeted structural family (equal-length axes, multi-axis index blocks, multi-factor products)

CUBE_LEAVES = [('arg', 'K'), ('arg', 'R'), ('arg', 'P'), ('arg', 'H')]

def structural_forms(a):
    '''the structural constructors (the ones with swap rules), all axis parameters, on sub-program a'''
    for axis in (0, 1, -1):
        yield ('sum', a, axis); yield ('product', a, axis)
        yield ('insertaxis', a, axis, 2)
        yield ('ravel', a, axis)
        yield ('get', a, axis, 1)
        for iv in ('perm2', 'dup2', 'perm3', 'sub2'): yield ('take', a, ('cvec', iv), axis)
        yield ('taken', a, ('cvec', 'idx22'), axis); yield ('taken', a, ('cvec', 'dup22'), axis)
        yield ('take', a, ('arg', 'k'), axis)
        for iv, n in (('perm2', 2), ('dup2', 3), ('perm3', 3), ('dup3', 4), ('idx22', 4), ('dup22', 3), ('idx223', 12), ('dup223', 9), ('idx232', 12)):
            yield ('inflate', a, ('cvec', iv), n, axis)
        yield ('unravel', a, axis, 2, 2); yield ('unravel', a, axis, 2, 1); yield ('unravel', a, axis, 1, 2); yield ('unravel', a, axis, 3, 1)
    yield ('transpose', a, 'r'); yield ('transpose', a, 'c'); yield ('swap', a, 0, -1); yield ('swap', a, 0, 1)
    for i, j in ((0, 1), (0, 2), (1, 2), (-2, -1), (0, -1)): yield ('takediag', a, i, j)
    for i, j in ((0, 1), (-1, -1), (0, 0), (-1, 0), (1, 1), (0, 2)): yield ('diagonalize', a, i, j)
    yield ('det', a); yield ('inv', a)
    yield ('loop_sum', ('take', a, ('lidx', 'i', 2), 0), ('lidx', 'i', 2)); yield ('loop_sum', ('take', a, ('lidx', 'i', 2), -1), ('lidx', 'i', 2))
    yield ('loop_concat', ('insertaxis', ('take', a, ('lidx', 'i', 2), 1), -1, 1), ('lidx', 'i', 2))
    yield ('loop_concat', ('take', a, ('lidx', 'i', 2), 0), ('lidx', 'i', 2))

def cube_binary():
    K, L, c = ('arg', 'K'), ('arg', 'L'), ('arg', 'c')
    yield ('choose', c, K, L); yield ('mul', K, L); yield ('add', K, ('transpose', L, 'r')); yield ('mul', K, ('transpose', L, 'c')); yield ('sub', K, ('swap', L, 0, 1))
    yield ('min', K, L); yield ('max', K, ('transpose', L, 'r')); yield ('pow', ('abs', K), L); yield ('div', K, ('exp', L)); yield ('arctan2', K, L)
    yield ('gt', K, L); yield ('eq', ('toint', ('gt0', K)), c); yield ('mod', c, ('add', c, ('ci', 1))); yield ('floordiv', c, ('add', c, ('ci', 1)))
    yield ('mul', K, ('insertaxis', ('arg', 'W'), 0, 2)); yield ('mul', K, ('insertaxis', ('arg', 'W'), 1, 2)); yield ('mul', K, ('insertaxis', ('arg', 'W'), 2, 2))
    yield ('add', K, ('insertaxis', ('insertaxis', ('arg', 'u'), 0, 2), 2, 2)); yield ('mul', K, ('diagonalize', ('arg', 'W'), 0, 2)); yield ('mul', K, ('diagonalize', ('arg', 'W'), 1, 2))
    yield ('stack', ('get', K, 0, 0), ('get', L, 1, 1), 1); yield ('concat', K, L, 1); yield ('polyval2', ('arg', 'W'), ('arg', 'P')); yield ('polyval1', ('arg', 'u'), K)
    yield ('choose', ('toint', ('gt0', K)), K, L); yield ('mul', ('tofloat', c), K); yield ('choose', c, ('toint', ('gt0', K)), c)

def multi_factor():
    '''products / sums of >= 3 factors with different axis supports (cluster logic of sparse extraction, einsum absorption)'''
    u, v, W, Q = ('arg', 'u'), ('arg', 'v'), ('arg', 'W'), ('arg', 'Q')
    ui = ('insertaxis', u, 1, 2); vj = ('insertaxis', v, 0, 2)
    for a, b, c in itertools.permutations([ui, vj, W]):
        yield ('mul', ('mul', a, b), c); yield ('mul', a, ('mul', b, c)); yield ('add', ('mul', a, b), c); yield ('mul', ('add', a, b), c)
    yield ('mul', ('mul', ('outer', u, v), W), Q); yield ('mul', ('outer', u, v), ('mul', W, ('transpose', Q, 'r')))
    yield ('mul', ('mul', ui, vj), ('diagonalize', u, 0, 1)); yield ('mul', ('diagonalize', u, 0, 1), ('mul', W, vj)); yield ('mul', ('mul', W, ui), ('inflate', v, ('cvec', 'perm2'), 2, 0) if False else ('insertaxis', ('inflate', v, ('cvec', 'perm2'), 2, 0), 0, 2))
    K = ('arg', 'K')
    uk = ('insertaxis', ('insertaxis', u, 1, 2), 2, 2); wjk = ('insertaxis', W, 0, 2); wik = ('insertaxis', W, 1, 2)
    for a, b, c in itertools.permutations([uk, wjk, wik]): yield ('mul', ('mul', a, b), c)
    yield ('mul', ('mul', uk, wjk), K); yield ('mul', K, ('mul', wik, uk)); yield ('sum', ('mul', ('mul', uk, wjk), K), 1); yield ('sum', ('mul', ('mul', wik, wjk), uk), 0)
    yield ('loop_sum', ('mul', ('mul', ('take', u, ('lidx', 'i', 2), 0), ('take', W, ('lidx', 'i', 2), 0)), ('take', K, ('lidx', 'i', 2), 1)), ('lidx', 'i', 2))
    yield ('loop_sum', ('inflate', ('mul', ('take', K, ('lidx', 'i', 2), 0), ('insertaxis', ('take', W, ('lidx', 'i', 2), 1), 0, 2)), ('cvec', 'dup22'), 3, 0), ('lidx', 'i', 2))

def double_diagonals():
    '''a diagonal of a diagonal (TakeDiag._takediag and the rules it forwards to) over a 4-axis operand with equal lengths'''
    F, K, W = ('arg', 'F'), ('arg', 'K'), ('arg', 'W')
    inners = [F, ('take', F, ('cvec', 'perm2'), 3), ('take', F, ('cvec', 'dup2'), 0), ('take', F, ('arg', 'k'), 1), ('mul', F, ('transpose', F, 'r')), ('add', F, ('transpose', F, 'c')),
              ('insertaxis', K, 1, 2), ('insertaxis', K, 3, 2), ('mul', F, ('insertaxis', K, 0, 2)), ('inflate', F, ('cvec', 'perm2'), 2, 2), ('sin', ('take', F, ('cvec', 'perm2'), 2)),
              ('diagonalize', K, 0, 3), ('diagonalize', K, 1, 2), ('sum', ('insertaxis', F, 2, 2), 2), ('product', ('insertaxis', F, 0, 2), 0), ('unravel', ('ravel', F, 1), 1, 2, 2), ('outer', W, W) if False else ('mul', ('insertaxis', ('insertaxis', W, 0, 2), 0, 2), F)]
    for a in inners:
        for (i, j) in ((0, 1), (2, 3), (0, 2), (1, 3), (0, 3), (1, 2)):
            for (k, l) in ((0, 1), (0, 2), (1, 2)):
                yield ('takediag', ('takediag', a, i, j), k, l)
        yield ('sum', ('takediag', ('takediag', a, 0, 1), 0, 1), 0)

def block_diagonals():
    '''block (multi-axis) inflations and gathers of operands that carry a diagonal, combined with other diagonal terms (structure descriptors _diagonals / _inflations)'''
    u, v, W, x, M = ('arg', 'u'), ('arg', 'v'), ('arg', 'W'), ('arg', 'x'), ('arg', 'M')
    du, dv = ('diagonalize', u, 0, 1), ('diagonalize', v, 0, 1)
    for blk in ('blk22', 'blk22b'):
        for ins in (0, 1, 2):
            a = ('insertaxis', du, ins, 2)
            for axis in (0, 1):
                f = ('inflate', a, ('cvec', blk), 2, axis)
                for other in (dv, W, ('transpose', dv, 'r'), ('diagonalize', ('mul', u, v), 0, 1)):
                    yield ('add', f, other); yield ('add', other, ('transpose', f, 'r'))      # products of indexed diagonals are the recorded non-termination finding: not repeated here
                yield ('takediag', f, 0, 1); yield ('sum', f, 0)
        yield ('add', ('taken', du, ('cvec', blk), 0), ('insertaxis', dv, 0, 2))
    dx = ('diagonalize', x, 0, 1)
    yield ('add', ('inflate', ('insertaxis', dx, 2, 2), ('cvec', 'blk32'), 3, 1), ('diagonalize', ('arg', 'y'), 0, 1))

def structured(level=2):
    '''targeted family: structural constructor pairs over equal-length leaves, structural constructors over binary nodes, multi-factor products'''
    for a in CUBE_LEAVES:
        for f in structural_forms(a):
            yield f
            if level >= 2:
                for g in structural_forms(f): yield g
    yield from double_diagonals()
    yield from block_diagonals()
    for b in list(cube_binary()) + list(multi_factor()):
        yield b
        for g in structural_forms(b):
            yield g
            if level >= 3:
                for h in structural_forms(g): yield h

# programs whose loop lengths / axis lengths depend on an argument ("loop-dependent and argument-dependent shapes")
VARLEN = [
    ('loop_sum', ('mul', ('add', ('tofloat', ('lidxn', 'i', 'n')), ('cf', 1.0)), ('arg', 'x')), ('lidxn', 'i', 'n')),
    ('sin', ('loop_sum', ('mul', ('add', ('tofloat', ('lidxn', 'i', 'n')), ('cf', 1.0)), ('cvec', 'fvec3')), ('lidxn', 'i', 'n'))),
    ('mul', ('arg', 'x'), ('sin', ('loop_sum', ('mul', ('add', ('tofloat', ('lidxn', 'i', 'n')), ('cf', 1.0)), ('cvec', 'fvec3')), ('lidxn', 'i', 'n')))),
    ('loop_sum', ('take', ('arg', 'x'), ('lidxn', 'i', 'n'), 0), ('lidxn', 'i', 'n')),
    ('loop_concat', ('insertaxis', ('take', ('arg', 'x'), ('lidxn', 'i', 'n'), 0), 0, 1), ('lidxn', 'i', 'n')),
    ('loop_concat', ('take', ('cvec', 'fvec3'), ('range', 2), 0), ('lidxn', 'l', 'n')),
    ('insertaxisn', ('sin', ('cvec', 'fvec3')), 1, 'n'), ('insertaxisn', ('sin', ('cvec', 'fvec3')), 0, 'n'), ('insertaxisn', ('arg', 'x'), 0, 'n'),
    ('sum', ('insertaxisn', ('mul', ('arg', 'x'), ('exp', ('cvec', 'fvec3'))), 1, 'n'), 1),
    ('mul', ('insertaxisn', ('exp', ('cvec', 'fvec3')), 1, 'n'), ('insertaxis', ('arg', 'x'), 1, 1)),
    ('transpose', ('insertaxisn', ('exp', ('cvec', 'fmat')), 0, 'n'), 'r'),
    ('take', ('exp', ('cvec', 'fmat')), ('arg', 'n'), 0), ('take', ('exp', ('cvec', 'fmat')), ('arg', 'n'), 1), ('get', ('transpose', ('exp', ('cvec', 'fmat')), 'r'), 0, 1),
    ('loop_sum', ('loop_sum', ('mul', ('tofloat', ('lidxn', 'i', 'n')), ('take', ('arg', 'x'), ('lidx', 'j', 3), 0)), ('lidx', 'j', 3)), ('lidxn', 'i', 'n')),
]

# loop bodies with one, two, three and four axes whose LENGTH depends on the loop index (element-dependent block sizes: an assembly loop over
# elements with 1, 2 and 3 local degrees of freedom): vector, matrix, order-3 and order-4 tensor contributions scattered through a dof list
def _varblock():
    I = ('lidx', 'i', 3)
    infl = lambda a: ('inflatev', ('take', a, ('lrange', I), 0), ('lrange', I), 3, 0)
    u, v, w, t = infl(('arg', 'x')), infl(('arg', 'y')), infl(('cvec', 'fvec3')), infl(('sin', ('arg', 'x')))
    def at(a, k, n):
        for j in range(n):
            if j != k: a = ('insertaxis', a, j, 3)
        return a
    out = [('loop_sum', u, I)]
    for fs in ((u, v), (u, v, w), (u, w, v, t)):
        body = at(fs[0], 0, len(fs))
        for k, f in enumerate(fs[1:], 1): body = ('mul', body, at(f, k, len(fs)))
        out.append(('loop_sum', body, I))
    out.append(('loop_sum', ('mul', at(u, 0, 3), ('mul', at(v, 1, 3), at(w, 2, 3))), I))
    out.append(('loop_sum', ('mul', at(u, 0, 2), at(('arg', 'y'), 1, 2)), I))      # one variable, one fixed axis
    return out
VARBLOCK = _varblock()

# programs quoted in properties.jsonl and found earlier (always included)
CORPUS = [
    ('sqrt', ('sqrt', ('pow_i2f', ('arg', 'x'), 4))),
    ('sqrt', ('sqrt', ('pow_f', ('arg', 'x'), 4.0))),
    ('takediag', ('mul', ('arg', 'M'), ('diagonalize', ('arg', 'x'), 0, 1)), 0, 1),
    ('pow_i2f', ('inflate', ('diagonalize', ('arg', 'w'), 0, 1), ('cvec', 'perm2'), 2, -1), 2),
    ('pow_f', ('inflate', ('diagonalize', ('arg', 'w'), 0, 1), ('cvec', 'perm2'), 2, -1), 2.0),
    ('stack', ('inflate', ('arg', 'T'), ('cvec', 'perm3'), 3, 1), ('arg', 'U'), -1),
    ('takediag', ('choose', ('insertaxis', ('insertaxis', ('arg', 'n'), 0, 3), 0, 3), ('arg', 'M'), ('arg', 'N')), 0, 1),
    ('takediag', ('mul', ('inflate', ('arg', 'T'), ('cvec', 'dup3'), 3, 0) if False else ('arg', 'M'), ('diagonalize', ('arg', 'y'), 0, 1)), 0, 1),
    ('add', ('matvec', ('arg', 'M'), ('arg', 'x')), ('insertaxis', ('sum', ('arg', 'x'), 0), 0, 3)),
    ('loop_sum', ('mul', ('take', ('arg', 'x'), ('lidx', 'i', 3), 0), ('take', ('arg', 'M'), ('lidx', 'i', 3), 0)), ('lidx', 'i', 3)),
    ('loop_concat', ('insertaxis', ('mul', ('take', ('arg', 'x'), ('lidx', 'i', 3), 0), ('take', ('arg', 'y'), ('lidx', 'i', 3), 0)), 0, 1), ('lidx', 'i', 3)),
    ('mul', ('inflate', ('arg', 'x'), ('cvec', 'dup3'), 4, 0), ('concat', ('arg', 'x'), ('cvec', 'one1') if False else ('insertaxis', ('arg', 's'), 0, 1), 0)),
    ('add', ('take', ('arg', 'x'), ('arg', 'k'), 0), ('take', ('arg', 'y'), ('arg', 'k'), 0)),
    ('det', ('inv', ('arg', 'Q'))),
    ('mul', ('min', ('abs', ('arg', 'x')), ('max', ('arg', 'y'), ('neg', ('arg', 'y')))), ('sign', ('arg', 'x'))),
    ('mod', ('add', ('range', 3), ('arg', 'n')), ('ci', 3)),
    ('takediag', ('mul', ('inflate', ('arg', 'T'), ('cvec', 'dup3') if False else ('cvec', 'perm3'), 3, 2) if False else ('arg', 'N'), ('diagonalize', ('arg', 'x'), 0, 1)), -2, -1),
    ('takediag', ('choose', ('arg', 'c'), ('arg', 'K'), ('arg', 'L')), 0, 1),     # diagonal(choose(i,[a,b])) transposed for square operands (fixed: e605220)
    ('takediag', ('choose', ('arg', 'c'), ('arg', 'K'), ('arg', 'L')), 0, 2),
    # as many stored entries as rows, first and last row occupied, one row empty (row pointer construction)
    ('inflate', ('diagonalize', ('arg', 'x'), 0, 1), ('cvec', 'dup3b'), 3, 0), ('inflate', ('diagonalize', ('arg', 'x'), 0, 1), ('cvec', 'dup3b'), 3, 1), ('inflate', ('diagonalize', ('cvec', 'fvec3'), 0, 1), ('cvec', 'dup3b'), 3, 0),
    # integer rewrites that rely on inferred ranges, with operands whose entries have DIFFERENT ranges (non-uniform divisors, loop-dependent divisors)
    ('mod', ('range', 4), ('cvec', 'div4')), ('floordiv', ('range', 4), ('cvec', 'div4')), ('mod', ('add', ('range', 4), ('insertaxis', ('arg', 'n'), 0, 4)), ('cvec', 'div4')),
    ('mod', ('range', 3), ('cvec', 'div3')), ('mod', ('sub', ('range', 4), ('ci', 2)), ('cvec', 'idiv4')), ('floordiv', ('sub', ('range', 4), ('ci', 2)), ('cvec', 'idiv4')),
    ('loop_sum', ('mod', ('ci', 3), ('add', ('lidx', 'i', 4), ('ci', 1))), ('lidx', 'i', 4)), ('loop_concat', ('insertaxis', ('mod', ('ci', 5), ('add', ('lidx', 'i', 4), ('ci', 2))), 0, 1), ('lidx', 'i', 4)),
    ('min', ('range', 4), ('cvec', 'div4')), ('max', ('sub', ('range', 4), ('ci', 1)), ('cvec', 'idiv4')), ('mod', ('take', ('cvec', 'div4'), ('arg', 'k'), 0), ('take', ('cvec', 'div3'), ('arg', 'k'), 0)),
    ('mod', ('arg', 'n'), ('add', ('arg', 'n'), ('ci', 1))), ('mod', ('range', 4), ('add', ('insertaxis', ('arg', 'n'), 0, 4), ('ci', 2))),
]

def default_args(names, variant=0):
    """concrete in-range argument values (for definedness probes)"""
    out = {}
    for n in names:
        shape, dtype, rng = ARGS[n]
        if dtype == float: v = numpy.full(shape, [0.75, -1.5, 2.25][variant % 3]) + numpy.arange(int(numpy.prod(shape, dtype=int))).reshape(shape) * .125
        elif dtype == complex: v = numpy.full(shape, [0.5 + 1j, -1 - .5j, 2j][variant % 3])
        elif dtype == bool: v = (numpy.arange(int(numpy.prod(shape, dtype=int))).reshape(shape) + variant) % 2 == 0
        else: v = numpy.full(shape, rng[0] + variant % (rng[1] - rng[0] + 1))
        out[n] = v
    return out

def size(p):
    return 1 + sum(size(q) for q in p[1:]) if isinstance(p, tuple) else 0

def subterms(p, out=None):
    if out is None: out = []
    if isinstance(p, tuple) and depth(p) > 0:
        for q in p[1:]: subterms(q, out)
        if p not in out: out.append(p)
    return out

def core(p, fails, limit=40):
    """smallest proper subterm of p on which `fails` still holds (p itself if none); used as the identity of a finding"""
    cands = sorted((q for q in subterms(p) if q != p), key=size)[:limit]
    for q in cands:
        try:
            if fails(q): return q
        except Exception:
            continue
    return p

def skeleton(p):
    """constructor skeleton: parameters and leaf names dropped (identity of a finding = the constructor nesting that fails)"""
    if not isinstance(p, tuple): return ''
    if depth(p) == 0: return p[0]
    return '(' + ' '.join([p[0]] + [skeleton(q) for q in p[1:] if isinstance(q, tuple)]) + ')'

_TERM_CLASSES = {'square': 'product', 'cube': 'product', 'pow_f': 'product', 'pow_i2f': 'product', 'mul': 'product', 'div': 'product', 'pow': 'product', 'matvec': 'product', 'matmat': 'product', 'outer': 'product', 'dot': 'product',
                 'take': 'index', 'inflate': 'index', 'get': 'index', 'stack': 'index', 'concat': 'index', 'diagonalize': 'diagonalize', 'takediag': 'takediag',
                 'loop_sum': 'loop', 'loop_concat': 'loop', 'ravel': 'ravel', 'unravel': 'ravel', 'det': 'det', 'inv': 'inv', 'sum': 'sum', 'product': 'sum', 'add': 'add', 'sub': 'add'}
def op_classes(p):
    """set of structural operation classes occurring in a program (identity of a termination finding: which rewrite families interact)"""
    out = set()
    def walk(q):
        if isinstance(q, tuple):
            c = _TERM_CLASSES.get(q[0])
            if c: out.add(c)
            for r in q[1:]: walk(r)
    walk(p)
    return '+'.join(sorted(out))
