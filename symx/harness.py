'''Common check infrastructure: CLI, evidence, known findings, replay files, process pool.'''
import os, sys, json, time, argparse, hashlib, multiprocessing, signal, traceback, collections, threading

VERIF = os.path.dirname(os.path.dirname(os.path.abspath(__file__)))
REPO = os.environ.get('VERIF_REPO', '/repo')     # overridden only to run a check against a scratch worktree (seed testing)
OUT = os.environ.get('VERIF_OUT', VERIF)          # evidence/ and replays/ land here (default: /verif itself)
EXIT_OK, EXIT_VIOLATION, EXIT_HARNESS = 0, 1, 3

def repo_head():
    import subprocess
    try:
        h = subprocess.run(['git', '-C', REPO, 'rev-parse', '--short', 'HEAD'], capture_output=True, text=True).stdout.strip()
        d = subprocess.run(['git', '-C', REPO, 'status', '--porcelain', '--', 'src'], capture_output=True, text=True).stdout.strip()
        return h + ('+dirty' if d else '')
    except Exception:
        return 'unknown'

def parse_args(pid, argv=None):
    ap = argparse.ArgumentParser(prog=f'check {pid}')
    ap.add_argument('--tier', default=os.environ.get('VERIF_TIER', 'quick'), choices=['quick', 'thorough'])
    ap.add_argument('--replay', default=None)
    ap.add_argument('--jobs', type=int, default=int(os.environ.get('VERIF_JOBS', '0')) or min(16, os.cpu_count() or 1))
    ap.add_argument('--only', default=None, help='substring filter on case keys (debugging)')
    a = ap.parse_args(argv)
    a.seed = int(os.environ.get('VERIF_SEED', '0') or 0)
    return a

def known_findings(pid):
    p = os.path.join(VERIF, 'known_findings.json')
    if not os.path.exists(p): return {}, []
    d = json.load(open(p))
    known = {e['key']: e for e in d.get('known', []) if e['property'] == pid}
    fixed = [e for e in d.get('fixed', []) if e['property'] == pid]
    return known, fixed

class Run:
    '''Collects counters for one check run and writes evidence/<id>.json.'''
    def __init__(self, pid, level, args, explanation=''):
        self.pid, self.level, self.args = pid, level, args
        self.t0 = time.time()
        self.cov = collections.OrderedDict()
        self.cov['explanation'] = explanation
        self.queries = collections.Counter()
        self.samples = []
        self.functions = set()
        self.bounds = {}
        self.stubs = []
        self.assumptions = []
        self.violations = []       # (key, description, replay path)
        self.known_hit = []
        self.inconclusive = []
        self.harness_errors = []
        self.twins_sat = 0
        self.twins_total = 0
        self.solver_seconds = 0.0
        self.paths = 0
        self.cases = 0
        self.nontrivial = set()
        self.known, self.fixed = known_findings(pid)
        import nutils
        if not os.path.realpath(nutils.__file__).startswith(os.path.realpath(REPO) + os.sep):
            self.harness_error(f'nutils imported from {nutils.__file__}, not from {REPO}: the check would not be deciding the working tree')
        self.counters = collections.Counter()

    # -- accounting
    def add_queries(self, d):
        for k, v in d.items(): self.queries[k] += v
    def sample(self, obj, limit=8):
        if len(self.samples) < limit: self.samples.append(obj)
    def case(self, key, nontrivial=True):
        self.cases += 1
        if nontrivial: self.nontrivial.add(key)
    def twin(self, sat):
        self.twins_total += 1
        if sat: self.twins_sat += 1
        else: self.harness_errors.append('vacuity twin did not come back sat')

    # -- outcomes
    def violation(self, key, what, replay):
        '''a counterexample that reproduced on the real code'''
        if 'SArray' in what or 'symx.' in what or 'SReal(' in what or 'SInt(' in what:
            # an exception that mentions the symbolic array classes comes from the engine (e.g. a symbolic value cached on an interned nutils node by an
            # earlier case of the same worker), not from nutils: inconclusive, never a violation
            self.unconfirmed(key, 'engine artefact (symbolic object leaked into a concrete run): ' + what[:300]); return
        if key in self.known:
            if key not in self.known_hit:
                self.known_hit.append(key)
                print(f'KNOWN-FINDING: property={self.pid} {self.known[key].get("what", what)} [{key}]', flush=True)
            return
        d = os.path.join(OUT, 'replays', self.pid)
        os.makedirs(d, exist_ok=True)
        name = hashlib.sha1(key.encode()).hexdigest()[:12] + '.json'
        path = os.path.join(d, name)
        with open(path, 'w') as f:
            json.dump(dict(property=self.pid, key=key, what=what, replay=replay), f, indent=1, default=str)
        if not any(k == key for k, _, _ in self.violations):
            self.violations.append((key, what, path))
            print(f'VIOLATION property={self.pid} replay={path}', flush=True)
            print(f'  {what}', flush=True)
    def unconfirmed(self, key, what):
        self.inconclusive.append(f'{key}: {what}')
    def harness_error(self, what):
        self.harness_errors.append(what)
        print(f'HARNESS-ERROR {self.pid}: {what}', file=sys.stderr, flush=True)

    def finish(self, extra_cov=None):
        from . import sym
        wall = time.time() - self.t0
        cov = self.cov
        if extra_cov: cov.update(extra_cov)
        cov['samples'] = self.samples or ['(no cases)']
        cov.setdefault('evaluations', self.cases)
        cov.setdefault('distinct_nontrivial', len(self.nontrivial))
        cov['functions_encoded'] = sorted(self.functions)[:400]
        cov['bounds'] = self.bounds
        cov['queries'] = dict(self.queries)
        cov['paths'] = self.paths
        cov['solver_seconds'] = round(self.solver_seconds + sym.STATS['solver_seconds'], 3)
        cov['stubs'] = self.stubs
        cov['twins_sat'] = f'{self.twins_sat}/{self.twins_total}'
        cov['known_findings_hit'] = self.known_hit
        cov['inconclusive'] = self.inconclusive[:50]
        cov['inconclusive_count'] = len(self.inconclusive)
        cov['counters'] = dict(self.counters)
        cov['repo_head'] = repo_head()
        if self.harness_errors: cov['harness_errors'] = self.harness_errors[:20]
        ev = dict(property_id=self.pid, tier=self.args.tier, seed=self.args.seed, level=self.level, coverage=cov,
                  assumptions=self.assumptions, wall_s=round(wall, 2), violations=len(self.violations))
        os.makedirs(os.path.join(OUT, 'evidence'), exist_ok=True)
        with open(os.path.join(OUT, 'evidence', f'{self.pid}.json'), 'w') as f:
            json.dump(ev, f, indent=1, default=str)
        summary = f'{self.pid} tier={self.args.tier} cases={self.cases} queries={dict(self.queries)} violations={len(self.violations)} known={len(self.known_hit)} inconclusive={len(self.inconclusive)} wall={wall:.1f}s'
        print(summary, flush=True)
        if self.violations: return EXIT_VIOLATION
        if self.harness_errors: return EXIT_HARNESS
        return EXIT_OK

# ---------------------------------------------------------------- tracing of executed nutils functions

class FuncTrace:
    '''records qualified names of nutils functions executed while active (sys.setprofile; use on a few cases only)'''
    def __init__(self): self.names = set()
    def _prof(self, frame, event, arg):
        if event == 'call':
            co = frame.f_code
            fn = co.co_filename
            if '/nutils/' in fn:
                mod = fn.split('/nutils/', 1)[1][:-3].replace('/', '.')
                self.names.add(f'nutils.{mod}.{getattr(co, "co_qualname", co.co_name)}')
    def __enter__(self):
        sys.setprofile(self._prof); return self
    def __exit__(self, *a):
        sys.setprofile(None)

# ---------------------------------------------------------------- process pool

try:
    import faulthandler; faulthandler.register(signal.SIGUSR1, all_threads=True)      # kill -USR1 <pid> dumps the python stacks of a check that seems stuck
except Exception: pass
class Timeout(BaseException): pass    # not an Exception: "except Exception" clauses inside harnesses and nutils must not swallow a budget
_DEADLINES = []     # stack of absolute deadlines of the active with_timeout calls (nesting-safe: an inner call re-arms the outer timer on exit)
def _alarm(signum, frame):
    now = time.time()
    if _DEADLINES and now >= min(_DEADLINES) - 1e-3: raise Timeout()
    _rearm()
def _rearm():
    # periodic: a Timeout raised while the interpreter runs a destructor or a C callback is swallowed ("Exception ignored in ..."); the timer fires again until the deadline is popped
    if _DEADLINES: signal.setitimer(signal.ITIMER_REAL, max(min(_DEADLINES) - time.time(), 1e-3), 0.5)
    else: signal.setitimer(signal.ITIMER_REAL, 0)

def with_timeout(seconds, fn, *args):
    signal.signal(signal.SIGALRM, _alarm)
    _DEADLINES.append(time.time() + seconds)
    _rearm()
    try:
        return fn(*args)
    finally:
        _DEADLINES.pop()
        _rearm()

_WORKER = None
_CASE_TIMEOUT = [0]
def _call(item):
    t0 = time.time()
    try:
        r = with_timeout(_CASE_TIMEOUT[0], _WORKER, item) if _CASE_TIMEOUT[0] else _WORKER(item)
        if isinstance(r, dict): r['_wall'] = round(time.time() - t0, 2)
        return r
    except Timeout:
        return dict(key=str(item)[:200], harness_error=f'case budget of {_CASE_TIMEOUT[0]}s exhausted (inconclusive): {str(item)[:300]}')
    except BaseException as e:
        return dict(key=str(item)[:200], harness_error=f'{type(e).__name__}: {e}\n{traceback.format_exc()[-1500:]}')

def pmap(worker, items, jobs, chunksize=4, case_timeout=0):
    '''ordered-insensitive parallel map with fork; worker must return picklable data.  case_timeout: wall-clock budget per item (0 = none); an item
    that exhausts it is reported as an inconclusive worker error, never as a verdict'''
    global _WORKER
    _WORKER = worker
    _CASE_TIMEOUT[0] = case_timeout
    items = list(items)
    if jobs <= 1 or len(items) <= 1:
        for it in items: yield _call(it)
        return
    ctx = multiprocessing.get_context('fork')
    with ctx.Pool(jobs, maxtasksperchild=200) as pool:
        for r in pool.imap_unordered(_call, items, chunksize=chunksize):
            yield r
