'''Symbolic scalars over z3 and a re-execution path explorer.

SBool/SInt/SReal/SCplx wrap z3 terms and implement the Python number protocol so
that unmodified nutils code (and the scripts nutils generates) can be executed on
them.  Floats are modelled as reals, ints as mathematical integers.
'''
import z3, fractions, numbers, numpy, math, time

STATS = dict(queries=0, solver_seconds=0.0, unknown=0, paths=0, decisions=0)

def timed_check(s, *extra):
    t0 = time.perf_counter()
    r = s.check(*extra)
    STATS['solver_seconds'] += time.perf_counter() - t0
    STATS['queries'] += 1
    if r == z3.unknown:
        STATS['unknown'] += 1
    return r

class Unsupported(Exception): pass
class PathAbort(BaseException): pass

class Ctx:
    cur = None
    def __init__(self):
        self.defined = []   # definedness side conditions
        self.side = []      # definitions of fresh variables / axioms
        self.decisions = []
        self.prefix = []
        self.pc = []
        self.nfresh = 0
        self.solver = None
    def fresh(self, sort, name='t'):
        self.nfresh += 1
        return z3.Const(f'{name}!{self.nfresh}', sort)

def ctx():
    if Ctx.cur is None:
        Ctx.cur = Ctx()
    return Ctx.cur

def _rat(v):
    v = float(v)
    if not math.isfinite(v):
        raise Unsupported('non-finite float')
    f = fractions.Fraction(v)
    return z3.RealVal(f)

KINDS = 'bifc'

def kind_of(v):
    if isinstance(v, Sym): return v.kind
    if isinstance(v, (bool, numpy.bool_)): return 'b'
    if isinstance(v, (int, numpy.integer)): return 'i'
    if isinstance(v, (float, numpy.floating)): return 'f'
    if isinstance(v, (complex, numpy.complexfloating)): return 'c'
    raise Unsupported(f'kind_of {type(v)}')

def lift(v, kind=None):
    '''return Sym of requested kind (or natural kind)'''
    if isinstance(v, Sym):
        s = v
    elif isinstance(v, (bool, numpy.bool_)):
        s = SBool(z3.BoolVal(bool(v)))
    elif isinstance(v, (int, numpy.integer)):
        s = SInt(z3.IntVal(int(v)))
    elif isinstance(v, (float, numpy.floating)):
        s = SReal(_rat(v))
    elif isinstance(v, (complex, numpy.complexfloating)):
        s = SCplx(_rat(v.real), _rat(v.imag))
    else:
        raise Unsupported(f'lift {type(v)}')
    if kind is not None and s.kind != kind:
        s = s.cast(kind)
    return s

def is_concrete(v):
    return not isinstance(v, Sym)

class _Inf(Exception):
    def __init__(self, v): self.v = v

def _infcmp(op):
    # compare finite symbolic self with +-inf other
    import operator as _o
    def f(s, o):
        try:
            a, b = s._coerce(o)
        except _Inf as e:
            return getattr(_o, op)(0., e.v)
        return SBool(getattr(_o, op)(a.t, b.t))
    return f

def _operand(o):
    return isinstance(o, (Sym, bool, int, float, complex, numpy.generic))

def _guard(f):
    def g(s, o):
        if not _operand(o): return NotImplemented
        return f(s, o)
    g.__name__ = f.__name__
    return g

class Sym:
    __slots__ = ()
    __array_priority__ = 1e6
    kind = None
    def __hash__(self): return id(self)
    def _coerce(self, other):
        if isinstance(other, float) and math.isinf(other):
            raise _Inf(other)
        a, b = self, lift(other)
        k = max(a.kind, b.kind, key=KINDS.index)
        if k == 'b': k = 'i'  # arithmetic on bools promotes
        return a.cast(k), b.cast(k)
    # arithmetic
    def __add__(s, o):
        if isinstance(o, float) and math.isinf(o): return o
        if s.kind == 'b' and kind_of(o) == 'b':
            return SBool(z3.Or(s.t, lift(o).t))
        a, b = s._coerce(o); return a._add(b)
    def __radd__(s, o): return s.__add__(o)
    def __sub__(s, o):
        if isinstance(o, float) and math.isinf(o): return -o
        a, b = s._coerce(o); return a._sub(b)
    def __rsub__(s, o):
        if isinstance(o, float) and math.isinf(o): return o
        return lift(o).__sub__(s)
    def __mul__(s, o):
        if isinstance(o, float) and math.isinf(o):
            if decide((s.cast('f').t if s.kind != 'f' else s.t) > 0): return o
            if decide((s.cast('f').t if s.kind != 'f' else s.t) < 0): return -o
            return float('nan')
        if s.kind == 'b' and kind_of(o) == 'b':
            return SBool(z3.And(s.t, lift(o).t))
        a, b = s._coerce(o); return a._mul(b)
    def __rmul__(s, o): return s.__mul__(o)
    def __truediv__(s, o):
        a, b = s._coerce(o)
        if a.kind == 'i': a, b = a.cast('f'), b.cast('f')
        return a._div(b)
    def __rtruediv__(s, o): return lift(o).__truediv__(s)
    def __floordiv__(s, o): a, b = s._coerce(o); return a._floordiv(b)
    def __rfloordiv__(s, o): return lift(o).__floordiv__(s)
    def __mod__(s, o): a, b = s._coerce(o); return a._mod(b)
    def __rmod__(s, o): return lift(o).__mod__(s)
    def __neg__(s): return s.cast('i')._neg() if s.kind == 'b' else s._neg()
    def __pos__(s): return s
    def __pow__(s, o): a, b = s._coerce(o); return a._pow(b)
    def __rpow__(s, o): return lift(o).__pow__(s)
    __lt__ = _infcmp('lt')
    __le__ = _infcmp('le')
    __gt__ = _infcmp('gt')
    __ge__ = _infcmp('ge')
    def __eq__(s, o):
        try: a, b = s._coerce(o)
        except Unsupported: return NotImplemented
        except _Inf: return False
        return a._eq(b)
    def __ne__(s, o):
        r = s.__eq__(o)
        if r is NotImplemented: return r
        if isinstance(r, bool): return not r
        return SBool(z3.Not(r.t))
    def _eq(a, b): return SBool(a.t == b.t)
    def __format__(s, spec): return '<sym>'

for _n in ('add', 'radd', 'sub', 'rsub', 'mul', 'rmul', 'truediv', 'rtruediv', 'floordiv', 'rfloordiv', 'mod', 'rmod', 'pow', 'rpow', 'lt', 'le', 'gt', 'ge'):
    setattr(Sym, f'__{_n}__', _guard(getattr(Sym, f'__{_n}__')))

class SBool(Sym):
    __slots__ = ('t',)
    kind = 'b'
    def __init__(s, t): s.t = t
    def cast(s, k):
        if k == 'b': return s
        if k == 'i': return SInt(z3.If(s.t, z3.IntVal(1), z3.IntVal(0)))
        if k == 'f': return SReal(z3.If(s.t, z3.RealVal(1), z3.RealVal(0)))
        return SCplx(z3.If(s.t, z3.RealVal(1), z3.RealVal(0)), z3.RealVal(0))
    def __bool__(s): return decide(s.t)
    def __invert__(s): return SBool(z3.Not(s.t))
    def conjugate(s): return s
    def __and__(s, o): return SBool(z3.And(s.t, lift(o, 'b').t))
    __rand__ = __and__
    def __or__(s, o): return SBool(z3.Or(s.t, lift(o, 'b').t))
    __ror__ = __or__
    def __xor__(s, o): return SBool(z3.Xor(s.t, lift(o, 'b').t))
    def __repr__(s): return f'SBool({z3.simplify(s.t)})'
    def __hash__(self): return id(self)

class SInt(Sym):
    __slots__ = ('t',)
    kind = 'i'
    def __init__(s, t): s.t = t
    def cast(s, k):
        if k == 'i': return s
        if k == 'f': return SReal(z3.ToReal(s.t))
        if k == 'c': return SCplx(z3.ToReal(s.t), z3.RealVal(0))
        if k == 'b': return SBool(s.t != 0)
    def _add(a, b): return SInt(a.t + b.t)
    def _sub(a, b): return SInt(a.t - b.t)
    def _mul(a, b): return SInt(a.t * b.t)
    def _neg(a): return SInt(-a.t)
    def _floordiv(a, b):
        ctx().defined.append(b.t != 0)
        q = _linear_quotient(a.t, b.t)
        return SInt(q if q is not None else _floordiv(a.t, b.t))
    def _mod(a, b):
        ctx().defined.append(b.t != 0)
        q = _linear_quotient(a.t, b.t)
        if q is not None:
            return SInt(z3.simplify(a.t - _times(q, b.t)))
        return SInt(a.t - b.t * _floordiv(a.t, b.t))
    def _pow(a, b):
        bt = z3.simplify(b.t)
        if z3.is_int_value(bt) and 0 <= bt.as_long() <= 8:
            r = z3.IntVal(1)
            for _ in range(bt.as_long()): r = r * a.t
            return SInt(r)
        raise Unsupported('int pow symbolic exponent')
    def __abs__(s): return SInt(z3.If(s.t >= 0, s.t, -s.t))
    def conjugate(s): return s
    def __index__(s): return concretize_int(s.t)
    __int__ = __index__
    def __bool__(s): return decide(s.t != 0)
    def __repr__(s): return f'SInt({z3.simplify(s.t)})'
    def __hash__(self): return id(self)

QRANGE = 3
def _linear_quotient(a, b):
    '''floor(a/b) for a SYMBOLIC positive divisor b as a linear if-then-else ladder, when the current path condition
    implies b > 0 and -QRANGE*b <= a < (QRANGE+1)*b (checked with the explorer's solver: a derived lemma, not an assumption).
    Returns None when b is a constant (z3 handles that natively) or the bound cannot be established.'''
    if z3.is_int_value(z3.simplify(b)): return None
    c = ctx()
    s = c.solver
    if s is None: return None
    s.push(); s.add(*c.pc, *c.side, z3.Not(z3.And(b > 0, a >= -QRANGE * b, a < (QRANGE + 1) * b)))
    r = timed_check(s); s.pop()
    if r != z3.unsat: return None
    q = z3.IntVal(QRANGE)
    for k in range(QRANGE - 1, -QRANGE - 1, -1):
        q = z3.If(a < (k + 1) * b, z3.IntVal(k), q)
    return q
def _times(q, b):
    '''q*b for the ladder q (keeps the term linear)'''
    if z3.is_int_value(q): return q.as_long() * b
    if z3.is_app_of(q, z3.Z3_OP_ITE):
        c, x, y = q.children()
        return z3.If(c, _times(x, b), _times(y, b))
    return q * b

def _floordiv(a, b):
    # z3 int div is floor for positive divisor (remainder in [0,|b|)); for b<0 use (-a) div (-b)
    return z3.If(b > 0, a / b, (-a) / (-b))

class SReal(Sym):
    __slots__ = ('t',)
    kind = 'f'
    def __init__(s, t): s.t = t
    def cast(s, k):
        if k == 'f': return s
        if k == 'c': return SCplx(s.t, z3.RealVal(0))
        if k == 'b': return SBool(s.t != 0)
        raise Unsupported(f'downcast real->{k}')
    def _add(a, b): return SReal(a.t + b.t)
    def _sub(a, b): return SReal(a.t - b.t)
    def _mul(a, b): return SReal(a.t * b.t)
    def _neg(a): return SReal(-a.t)
    def _div(a, b):
        ctx().defined.append(b.t != 0)
        return SReal(a.t / b.t)
    def _floordiv(a, b):
        ctx().defined.append(b.t != 0)
        return SReal(z3.ToReal(z3.ToInt(a.t / b.t)))
    def _mod(a, b):
        ctx().defined.append(b.t != 0)
        return SReal(a.t - b.t * z3.ToReal(z3.ToInt(a.t / b.t)))
    def _pow(a, b):
        bt = z3.simplify(b.t)
        if z3.is_rational_value(bt):
            f = bt.as_fraction()
            if f.denominator == 1 and abs(f.numerator) <= 8:
                r = z3.RealVal(1)
                for _ in range(abs(f.numerator)): r = r * a.t
                if f.numerator < 0:
                    ctx().defined.append(a.t != 0)
                    r = 1 / r
                return SReal(r)
            if f.denominator <= 4 and abs(f.numerator) <= 8:
                c = ctx()
                y = c.fresh(z3.RealSort(), 'root')
                xp = z3.RealVal(1)
                for _ in range(abs(f.numerator)): xp = xp * a.t
                yq = z3.RealVal(1)
                for _ in range(f.denominator): yq = yq * y
                c.side.append(z3.Implies(a.t >= 0, z3.And(y >= 0, yq == xp)))
                c.defined.append(a.t >= 0 if f.numerator > 0 else a.t > 0)
                return SReal(y if f.numerator > 0 else 1 / y)
        c = ctx()
        c.defined.append(a.t > 0)
        return SReal(UF('pow', a.t, b.t))
    def __abs__(s): return SReal(z3.If(s.t >= 0, s.t, -s.t))
    def __bool__(s): return decide(s.t != 0)
    def __repr__(s): return f'SReal({z3.simplify(s.t)})'
    def __hash__(self): return id(self)
    def __float__(s): raise Unsupported('float() of symbolic real')

_UF = {}
def UF(name, *args):
    f = _UF.get((name, len(args)))
    if f is None:
        f = _UF[name, len(args)] = z3.Function(name, *([z3.RealSort()] * (len(args) + 1)))
    return f(*args)

UF_AXIOMS = lambda: [UF('sin', z3.RealVal(0)) == 0, UF('cos', z3.RealVal(0)) == 1, UF('exp', z3.RealVal(0)) == 1,
                     UF('log', z3.RealVal(1)) == 0, UF('tan', z3.RealVal(0)) == 0, UF('sinh', z3.RealVal(0)) == 0,
                     UF('cosh', z3.RealVal(0)) == 1, UF('tanh', z3.RealVal(0)) == 0, UF('arcsin', z3.RealVal(0)) == 0,
                     UF('arctan', z3.RealVal(0)) == 0, UF('arctanh', z3.RealVal(0)) == 0,
                     # enclosures of the two irrational constants nutils folds in binary64 (log2/log10 are log(x)/log(2|10)): decided by the margin query
                     UF('log', z3.RealVal(2)) > z3.RealVal('0.6931471805599452'), UF('log', z3.RealVal(2)) < z3.RealVal('0.6931471805599454'),
                     UF('log', z3.RealVal(10)) > z3.RealVal('2.302585092994045'), UF('log', z3.RealVal(10)) < z3.RealVal('2.302585092994046')]

def _unary(name, dom=None):
    def f(s):
        if dom is not None:
            ctx().defined.append(dom(s.t))
        return SReal(UF(name, s.t))
    return f
for _n, _d in dict(sin=None, cos=None, tan=None, exp=None, sinh=None, cosh=None, tanh=None, arctan=None,
                   log=lambda x: x > 0, arcsin=lambda x: z3.And(x >= -1, x <= 1), arccos=lambda x: z3.And(x >= -1, x <= 1),
                   arctanh=lambda x: z3.And(x > -1, x < 1), log2=lambda x: x > 0, log10=lambda x: x > 0).items():
    setattr(SReal, _n, _unary(_n, _d))
SReal.sqrt = lambda s: s._pow(lift(.5))
SReal.log2 = lambda s: SReal.log(s) / SReal.log(lift(2.))
SReal.log10 = lambda s: SReal.log(s) / SReal.log(lift(10.))
SReal.conjugate = lambda s: s
SReal.reciprocal = lambda s: lift(1.)._div(s)

class SCplx(Sym):
    __slots__ = ('re', 'im')
    kind = 'c'
    def __init__(s, re, im): s.re, s.im = re, im
    def cast(s, k):
        if k == 'c': return s
        if k == 'b': return SBool(z3.Or(s.re != 0, s.im != 0))
        raise Unsupported('downcast complex')
    def _add(a, b): return SCplx(a.re + b.re, a.im + b.im)
    def _sub(a, b): return SCplx(a.re - b.re, a.im - b.im)
    def _mul(a, b): return SCplx(a.re * b.re - a.im * b.im, a.re * b.im + a.im * b.re)
    def _neg(a): return SCplx(-a.re, -a.im)
    def _div(a, b):
        d = b.re * b.re + b.im * b.im
        ctx().defined.append(d != 0)
        return SCplx((a.re * b.re + a.im * b.im) / d, (a.im * b.re - a.re * b.im) / d)
    def _eq(a, b): return SBool(z3.And(a.re == b.re, a.im == b.im))
    def conjugate(s): return SCplx(s.re, -s.im)
    def __abs__(s): return SReal(s.re * s.re + s.im * s.im)._pow(lift(.5))
    def _pow(a, b):
        bt = (z3.simplify(b.re), z3.simplify(b.im))
        if z3.is_rational_value(bt[0]) and z3.is_rational_value(bt[1]) and bt[1].as_fraction() == 0 and bt[0].as_fraction().denominator == 1 and 0 <= bt[0].as_fraction().numerator <= 6:
            r = SCplx(z3.RealVal(1), z3.RealVal(0))
            for _ in range(bt[0].as_fraction().numerator): r = r._mul(a)
            return r
        raise Unsupported('complex power')
    def __getattr__(s, name):
        if name in ('sin', 'cos', 'tan', 'exp', 'log', 'sinh', 'cosh', 'tanh', 'arcsin', 'arccos', 'arctan', 'arctanh', 'log2', 'log10', 'sqrt'):
            raise Unsupported(f'complex {name}')
        raise AttributeError(name)
    def __bool__(s): return decide(z3.Or(s.re != 0, s.im != 0))
    @property
    def real(s): return SReal(s.re)
    @property
    def imag(s): return SReal(s.im)
    def __repr__(s): return f'SCplx({z3.simplify(s.re)},{z3.simplify(s.im)})'
    def __hash__(self): return id(self)

numbers.Integral.register(SInt)
numbers.Real.register(SReal)

# ---------------------------------------------------------------- path explorer

def decide(cond):
    c = ctx()
    cond = z3.simplify(cond)
    if z3.is_true(cond): return True
    if z3.is_false(cond): return False
    i = len(c.decisions)
    if i < len(c.prefix):
        v = c.prefix[i]
        c.decisions.append((v, None))
        c.pc.append(cond if v else z3.Not(cond))
        return v
    s = c.solver
    def feas(f):
        s.push(); s.add(*c.pc, *c.side, f)
        r = timed_check(s); s.pop()
        if r == z3.unknown: raise PathAbort('unknown feasibility')
        return r == z3.sat
    ft, ff = feas(cond), feas(z3.Not(cond))
    if ft and ff:
        c.decisions.append((True, True)); c.pc.append(cond); return True
    if ft:
        c.decisions.append((True, False)); c.pc.append(cond); return True
    if ff:
        c.decisions.append((False, False)); c.pc.append(z3.Not(cond)); return False
    raise PathAbort('infeasible path')

def concretize_int(t):
    t = z3.simplify(t)
    if z3.is_int_value(t): return t.as_long()
    c = ctx()
    c.nindex = getattr(c, 'nindex', 0) + 1
    if c.nindex > c.max_index_forks:
        raise PathAbort('index enumeration beyond bound')
    s = c.solver
    s.push(); s.add(*c.pc)
    if timed_check(s) != z3.sat:
        s.pop(); raise PathAbort('infeasible')
    v = s.model().eval(t, model_completion=True).as_long()
    s.pop()
    if decide(t == v):
        return v
    return concretize_int(t)

class Path:
    __slots__ = ('pc', 'defined', 'side', 'tag', 'value')
    def __init__(self, pc, defined, side, tag, value):
        self.pc, self.defined, self.side, self.tag, self.value = pc, defined, side, tag, value
    def __iter__(self):  # legacy unpacking: pc, defined, side, (tag, value)
        return iter((self.pc, self.defined, self.side, (self.tag, self.value)))

def explore(fn, assumptions=(), max_paths=256, timeout_ms=20000, max_index_forks=64):
    '''Run fn() on every feasible path.  Returns (paths, exhaustive).

    tag is one of 'ok' (value = return value), 'exc' (value = exception raised by the
    code under test), 'abort' (path left the stated bound / solver said unknown),
    'unsupported' (the engine cannot model an operation).  exhaustive is True only
    when the work list drained and no path was aborted or unsupported.'''
    work = [[]]
    results = []
    complete = True
    while work:
        if len(results) >= max_paths:
            complete = False
            break
        prefix = work.pop()
        c = Ctx.cur = Ctx()
        c.prefix = prefix
        c.max_index_forks = max_index_forks
        c.solver = z3.Solver(); c.solver.set('timeout', timeout_ms)
        c.pc = list(assumptions)
        try:
            r = ('ok', fn())
        except PathAbort as e:
            r = ('abort', str(e))
            if 'infeasible' not in str(e): complete = False
        except Unsupported as e:
            r = ('unsupported', str(e)); complete = False
        except Exception as e:
            r = ('exc', e)
        for i, (v, alt) in enumerate(c.decisions):
            if alt and i >= len(prefix):
                work.append([d for d, _ in c.decisions[:i]] + [not v])
        STATS['paths'] += 1
        STATS['decisions'] += len(c.decisions)
        results.append(Path(list(c.pc), list(c.defined), list(c.side), r[0], r[1]))
    Ctx.cur = None
    return results, complete
