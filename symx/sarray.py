'''prototype: symbolic numpy arrays with concrete shape'''
import fractions, numpy, z3, types as pytypes, itertools, functools, operator
from .sym import *

NPDT = {'b': numpy.dtype(bool), 'i': numpy.dtype('int64'), 'f': numpy.dtype('float64'), 'c': numpy.dtype('complex128')}

def kind_of_dtype(dt):
    k = numpy.dtype(dt).kind
    return {'b': 'b', 'i': 'i', 'u': 'i', 'f': 'f', 'c': 'c'}[k]

def pyval(v):
    return v.item() if isinstance(v, numpy.generic) else v

UNINIT_SYMBOLIC = [True]     # numpy.empty of the proxy returns fresh symbols (arbitrary garbage) instead of zeros

class SArray:
    __array_priority__ = 1e6

    def __init__(self, a, kind):
        assert isinstance(a, numpy.ndarray) and a.dtype == object, type(a)
        assert kind in KINDS
        self.a = a
        self.kind = kind

    # -- construction
    @staticmethod
    def wrap(x, kind=None):
        if isinstance(x, SArray):
            return x if kind in (None, x.kind) else x.astype(NPDT[kind])
        if isinstance(x, Sym):
            a = numpy.empty((), object); a[()] = x
            k = x.kind
        else:
            arr = numpy.asarray(x)
            if arr.dtype == object:
                raise Unsupported('wrap object array')
            k = kind_of_dtype(arr.dtype)
            a = arr.astype(object)
        r = SArray(a, k)
        return r if kind in (None, k) else r.astype(NPDT[kind])

    @staticmethod
    def symbolic(name, shape, kind='f'):
        a = numpy.empty(shape, object)
        for idx in numpy.ndindex(*shape):
            nm = name + ''.join(f'_{i}' for i in idx)
            a[idx] = {'f': lambda: SReal(z3.Real(nm)), 'i': lambda: SInt(z3.Int(nm)), 'b': lambda: SBool(z3.Bool(nm)),
                      'c': lambda: SCplx(z3.Real(nm + 're'), z3.Real(nm + 'im'))}[kind]()
        return SArray(a, kind)

    # -- basic attributes
    shape = property(lambda s: s.a.shape)
    ndim = property(lambda s: s.a.ndim)
    size = property(lambda s: s.a.size)
    dtype = property(lambda s: NPDT[s.kind])
    strides = property(lambda s: s.a.strides)
    flags = property(lambda s: s.a.flags)
    T = property(lambda s: SArray(s.a.T, s.kind))
    real = property(lambda s: s if s.kind != 'c' else SArray(_vec(lambda x: lift(x, 'c').real)(s.a), 'f'))
    imag = property(lambda s: SArray(_vec(lambda x: lift(x, 'c').imag)(s.a), 'f') if s.kind == 'c' else SArray.wrap(numpy.zeros(s.shape, NPDT[s.kind])))
    def __len__(s): return len(s.a)
    def __iter__(s): return (SArray.wrap_elem(x, s.kind) for x in s.a)
    @staticmethod
    def wrap_elem(x, kind):
        if isinstance(x, numpy.ndarray): return SArray(x, kind)
        a = numpy.empty((), object); a[()] = x
        return SArray(a, kind)
    def __repr__(s): return f'SArray<{s.kind}>{s.a!r}'
    def __format__(s, spec): return '<symarray>'
    def setflags(s, **kw): s.a.setflags(**kw)
    @property
    def flags(s): return s.a.flags
    def fill(s, v): s.a.fill(s._elem(v))
    def copy(s): return SArray(s.a.copy(), s.kind)
    def item(s): return s.a.item()
    def __index__(s):
        if s.ndim: raise TypeError('only 0-d')
        return operator.index(s.a[()])
    def __int__(s): return int(s.a[()])
    def __bool__(s):
        if s.size != 1: raise ValueError('truth value of array')
        return bool(s.a.reshape(())[()])
    def __float__(s):
        v = s.a[()]
        if isinstance(v, Sym): raise Unsupported('float() of symbolic')
        return float(v)
    def _elem(s, v):
        v = pyval(v)
        if isinstance(v, Sym): return v if v.kind == s.kind else v.cast(s.kind)
        return NPDT[s.kind].type(v).item()
    def astype(s, dt, copy=True):
        k = kind_of_dtype(dt) if not isinstance(dt, str) or dt not in KINDS else dt
        if k == s.kind: return s.copy() if copy else s
        def conv(x):
            if isinstance(x, Sym):
                if k == 'i' and x.kind == 'f':      # numpy: float -> int truncates toward zero
                    return SInt(z3.If(x.t >= 0, z3.ToInt(x.t), -z3.ToInt(-x.t)))
                return x.cast(k)
            return NPDT[k].type(x).item()
        return SArray(_vec(conv)(s.a), k)
    def reshape(s, *shape): return SArray(s.a.reshape(*shape), s.kind)
    def transpose(s, *axes): return SArray(s.a.transpose(*axes), s.kind)
    def ravel(s): return SArray(s.a.ravel(), s.kind)
    def sum(s, axis=None, dtype=None): return numpy.sum(s, axis=axis)
    def any(s, axis=None): return numpy.any(s, axis=axis)
    def all(s, axis=None): return numpy.all(s, axis=axis)
    def take(s, idx, axis=None): return numpy.take(s, idx, axis=axis)
    def repeat(s, n, axis=None): return SArray(s.a.repeat(n, axis), s.kind)
    def max(s, axis=None): return numpy.maximum.reduce(s, axis=axis)
    def min(s, axis=None): return numpy.minimum.reduce(s, axis=axis)
    def nonzero(s): return numpy.nonzero(s)
    def conjugate(s): return numpy.conjugate(s)
    def searchsorted(s, v, side='left', sorter=None): return numpy.searchsorted(s, v, side=side, sorter=sorter)
    def argmin(s, axis=None): raise Unsupported('argmin')
    def tolist(s): return s.a.tolist()

    # -- indexing
    def _index(s, item):
        '''convert SArray indices to concrete where possible; return (item, symbolic_positions)'''
        if not isinstance(item, tuple): item = (item,)
        out = []
        sym = False
        for it in item:
            if isinstance(it, SArray):
                if it.kind == 'b' or all(is_concrete(x) for x in it.a.flat):
                    if any(not is_concrete(x) for x in it.a.flat):
                        # a symbolic boolean mask decides the SHAPE of the result: fork on every entry (the path explorer enumerates the masks)
                        if it.size > 8: raise Unsupported('symbolic bool mask index with more than 8 entries')
                        conc = numpy.empty(it.shape, bool)
                        for i in numpy.ndindex(*it.shape): conc[i] = bool(it.a[i])
                        it = conc if it.ndim else conc[()]
                    else:
                        it = it.a.astype(NPDT[it.kind]) if it.ndim else it.a[()]
                else:
                    sym = True
            elif isinstance(it, Sym):
                sym = True
            out.append(it)
        return tuple(out), sym

    def __getitem__(s, item):
        item, sym = s._index(item)
        if not sym:
            r = s.a[item]
            return SArray(r, s.kind) if isinstance(r, numpy.ndarray) else SArray.wrap_elem(r, s.kind)
        return _sym_getitem(s, item)

    def __setitem__(s, item, value):
        item, sym = s._index(item)
        if isinstance(value, SArray): v = value.astype(s.dtype, copy=False).a if value.kind != s.kind else value.a
        elif isinstance(value, Sym): v = s._elem(value)
        else: v = SArray.wrap(value).astype(s.dtype, copy=False).a
        if isinstance(v, numpy.ndarray) and v.ndim == 0: v = v[()]
        if not sym:
            s.a[item] = v
            return
        _sym_setitem(s, item, v, add=False)

    # -- operators
    def __array_ufunc__(s, ufunc, method, *inputs, out=None, **kw):
        return _ufunc(ufunc, method, inputs, out, kw)
    def __array_function__(s, func, types, args, kwargs):
        # defer to foreign array-likes that implement the protocol themselves (nutils function arrays, SI quantities wrapping symbolic magnitudes):
        # they unwrap their payload and call back into NumPy, which then dispatches to this class
        if any(t is not SArray and not issubclass(t, (numpy.ndarray, Sym)) and hasattr(t, '__array_function__') for t in types):
            return NotImplemented
        h = HANDLED.get(func)
        if h is None:
            return _concrete_fallback(func, args, kwargs)
        return h(*args, **kwargs)

def _concrete_fallback(func, args, kwargs):
    '''functions without a symbolic model: allowed when every array operand is fully concrete (e.g. constant index arrays)'''
    def conv(x):
        if isinstance(x, SArray):
            if not all(is_concrete(v) for v in x.a.flat): raise Unsupported(f'numpy function {func.__module__}.{func.__name__} on symbolic data')
            return x.a.astype(NPDT[x.kind])
        if isinstance(x, Sym): raise Unsupported(f'numpy function {func.__name__} on symbolic scalar')
        if isinstance(x, (list, tuple)): return type(x)(conv(y) for y in x)
        return x
    r = func(*[conv(a) for a in args], **{k: conv(v) for k, v in kwargs.items()})
    def wrap(y):
        if isinstance(y, numpy.ndarray) and y.dtype != object: return SArray.wrap(y)
        if isinstance(y, tuple): return tuple(wrap(z) for z in y)
        return y
    return wrap(r)

def _binop(uf, swap=False):
    def op(s, o):
        if isinstance(o, (list, tuple)): o = numpy.asarray(o)
        return _ufunc(uf, '__call__', (o, s) if swap else (s, o), None, {})
    return op
for _n, _u in dict(add=numpy.add, sub=numpy.subtract, mul=numpy.multiply, truediv=numpy.true_divide, floordiv=numpy.floor_divide,
                   mod=numpy.remainder, pow=numpy.power, lt=numpy.less, le=numpy.less_equal, gt=numpy.greater, ge=numpy.greater_equal,
                   eq=numpy.equal, ne=numpy.not_equal, and_=numpy.bitwise_and, or_=numpy.bitwise_or).items():
    n = _n.rstrip('_')
    setattr(SArray, f'__{n}__', _binop(_u))
    if n not in ('lt', 'le', 'gt', 'ge', 'eq', 'ne'):
        setattr(SArray, f'__r{n}__', _binop(_u, swap=True))
        setattr(SArray, f'__i{n}__', (lambda u: lambda s, o: _ufunc(u, '__call__', (s, o), (s,), {}))(_u))
SArray.__neg__ = lambda s: _ufunc(numpy.negative, '__call__', (s,), None, {})
SArray.__pos__ = lambda s: s
SArray.__abs__ = lambda s: _ufunc(numpy.absolute, '__call__', (s,), None, {})
SArray.__invert__ = lambda s: _ufunc(numpy.logical_not, '__call__', (s,), None, {})
SArray.__matmul__ = lambda s, o: HANDLED[numpy.matmul](s, o)
SArray.__rmatmul__ = lambda s, o: HANDLED[numpy.matmul](o, s)
SArray.__divmod__ = lambda s, o: (s // o, s % o)
SArray.__hash__ = None

def _vec(f, nin=1):
    uf = numpy.frompyfunc(f, nin, 1)
    def g(*args):
        r = uf(*args)
        if not isinstance(r, numpy.ndarray):
            tmp = numpy.empty((), object); tmp[()] = r; r = tmp
        return r
    return g

def _map_ite(t, fn, depth=0):
    '''apply a concrete float function to the numeric leaves of an if-then-else tree (selection among constants by a symbolic index); None if t is anything else'''
    if z3.is_rational_value(t):
        fr = t.as_fraction(); v = fn(float(fr))
        if not numpy.isfinite(v): return None
        return z3.RealVal(fractions.Fraction(float(v)))
    if depth < 12 and z3.is_app(t) and t.decl().kind() == z3.Z3_OP_ITE:
        a, b = _map_ite(t.arg(1), fn, depth + 1), _map_ite(t.arg(2), fn, depth + 1)
        if a is None or b is None: return None
        return z3.If(t.arg(0), a, b)
    return None

def _call_method(name):
    def f(x):
        if isinstance(x, Sym):
            if x.kind == 'f' and type(x) is SReal and z3.is_app(x.t) and x.t.decl().kind() == z3.Z3_OP_ITE:
                with numpy.errstate(all='ignore'):
                    m = _map_ite(x.t, getattr(numpy, name))
                if m is not None: return SReal(m)
            return getattr(x, name)()
        return pyval(getattr(numpy, name)(x))
    return f

def _sign(x):
    if isinstance(x, Sym):
        if x.kind == 'i': return SInt(z3.If(x.t > 0, 1, z3.If(x.t < 0, -1, 0)))
        return SReal(z3.If(x.t > 0, z3.RealVal(1), z3.If(x.t < 0, z3.RealVal(-1), z3.RealVal(0))))
    return pyval(numpy.sign(x))
def _maximum(x, y):
    if is_concrete(x) and is_concrete(y): return max(x, y)
    a, b = lift(x)._coerce(y)
    return type(a)(z3.If(a.t >= b.t, a.t, b.t))
def _minimum(x, y):
    if is_concrete(x) and is_concrete(y): return min(x, y)
    a, b = lift(x)._coerce(y)
    return type(a)(z3.If(a.t <= b.t, a.t, b.t))
def _lnot(x):
    return ~x if isinstance(x, Sym) else (not x)
def _land(x, y):
    if is_concrete(x): return y if x else False
    if is_concrete(y): return x if y else False
    return x & y
def _lor(x, y):
    if is_concrete(x): return True if x else y
    if is_concrete(y): return True if y else x
    return x | y

# ufunc -> (python function on elements, result kind rule)
def _k_arith(ks): return max(ks, key=KINDS.index)
def _k_float(ks): k = _k_arith(ks); return k if k == 'c' else 'f'
def _k_bool(ks): return 'b'
def _k_same(ks): return ks[0]
def _k_abs(ks): return 'f' if ks[0] == 'c' else ks[0]
UFT = {
    numpy.add: (operator.add, _k_arith), numpy.subtract: (operator.sub, _k_arith), numpy.multiply: (operator.mul, _k_arith),
    numpy.true_divide: (operator.truediv, _k_float), numpy.floor_divide: (operator.floordiv, _k_arith), numpy.remainder: (operator.mod, _k_arith),
    numpy.power: (operator.pow, _k_arith), numpy.negative: (operator.neg, _k_same), numpy.positive: (operator.pos, _k_same),
    numpy.absolute: (abs, _k_abs), numpy.sign: (_sign, _k_same), numpy.maximum: (_maximum, _k_arith), numpy.minimum: (_minimum, _k_arith),
    numpy.less: (operator.lt, _k_bool), numpy.less_equal: (operator.le, _k_bool), numpy.greater: (operator.gt, _k_bool),
    numpy.greater_equal: (operator.ge, _k_bool), numpy.equal: (operator.eq, _k_bool), numpy.not_equal: (operator.ne, _k_bool),
    numpy.logical_not: (_lnot, _k_bool), numpy.logical_and: (_land, _k_bool), numpy.logical_or: (_lor, _k_bool),
    numpy.bitwise_and: (_land, _k_same), numpy.bitwise_or: (_lor, _k_same), numpy.invert: (_lnot, _k_same),
    numpy.reciprocal: (lambda x: 1. / x, _k_float), numpy.sqrt: (lambda x: x ** .5, _k_float),
    numpy.conjugate: (lambda x: x.conjugate(), _k_same),
}
for _n in 'sin cos tan exp log sinh cosh tanh arcsin arccos arctan arctanh log2 log10'.split():
    UFT[getattr(numpy, _n)] = (_call_method(_n), _k_float)

def _arctan2(y, x):
    if is_concrete(x) and is_concrete(y): return float(numpy.arctan2(y, x))
    a, b = lift(y).cast('f'), lift(x).cast('f')
    ctx().defined.append(z3.Or(a.t != 0, b.t != 0))
    return SReal(UF('arctan2', a.t, b.t))
def _floor(x):
    if is_concrete(x): return float(numpy.floor(x))
    if x.kind == 'i': return x
    return SReal(z3.ToReal(z3.ToInt(x.t)))
def _ceil(x):
    if is_concrete(x): return float(numpy.ceil(x))
    if x.kind == 'i': return x
    return SReal(-z3.ToReal(z3.ToInt(-x.t)))
def _lxor(x, y):
    if is_concrete(x) and is_concrete(y): return bool(x) != bool(y)
    return SBool(z3.Xor(lift(x, 'b').t, lift(y, 'b').t))
UFT[numpy.arctan2] = (_arctan2, _k_float)
UFT[numpy.floor] = (_floor, _k_same)
UFT[numpy.ceil] = (_ceil, _k_same)
UFT[numpy.logical_xor] = (_lxor, _k_bool)
UFT[numpy.bitwise_xor] = (_lxor, _k_same)
UFT[numpy.square] = (lambda x: x * x, _k_same)
UFT[numpy.isnan] = (lambda x: False if isinstance(x, Sym) else bool(numpy.isnan(x)), _k_bool)
UFT[numpy.isfinite] = (lambda x: True if isinstance(x, Sym) else bool(numpy.isfinite(x)), _k_bool)
UFT[numpy.hypot] = (lambda x, y: (x * x + y * y) ** .5, _k_float)

def _prep(x, kind=None):
    '''operand -> object ndarray with elements coerced'''
    if isinstance(x, SArray): return x.a, x.kind
    if isinstance(x, Sym):
        a = numpy.empty((), object); a[()] = x; return a, x.kind
    arr = numpy.asarray(x)
    if arr.dtype == object:
        raise Unsupported('raw object array operand')
    return arr.astype(object), kind_of_dtype(arr.dtype)

def _ufunc(ufunc, method, inputs, out, kw):
    if ufunc is numpy.matmul and method == '__call__': return HANDLED[numpy.matmul](*inputs)
    if ufunc is numpy.divmod and method == '__call__': return (_ufunc(numpy.floor_divide, method, inputs, None, kw), _ufunc(numpy.remainder, method, inputs, None, kw))
    if ufunc not in UFT:
        raise Unsupported(f'ufunc {ufunc.__name__}')
    f, krule = UFT[ufunc]
    if method == '__call__':
        arrs, kinds = zip(*[_prep(x) for x in inputs])
        k = krule(list(kinds))
        if ufunc in (numpy.add, numpy.multiply, numpy.maximum, numpy.minimum) and all(kk == 'b' for kk in kinds):
            f = {numpy.add: _lor, numpy.multiply: _land, numpy.maximum: _lor, numpy.minimum: _land}[ufunc]
        if ufunc is numpy.power and k == 'i':
            pass
        # numpy semantics: operate in the common kind
        if ufunc in (numpy.true_divide,):
            arrs = [_cast(a, kk, 'f' if k != 'c' else 'c') for a, kk in zip(arrs, kinds)]
        res = _vec(f, len(arrs))(*arrs)
        if not isinstance(res, numpy.ndarray):
            tmp = numpy.empty((), object); tmp[()] = res; res = tmp
        res = _cast(res, None, k)
        if out is not None:
            o, = out
            if not isinstance(o, SArray): raise Unsupported('out is not SArray')
            o.a[...] = _cast(res, k, o.kind)
            return o
        return SArray(res, k)
    if method == 'reduce':
        x, = inputs
        a, k = _prep(x)
        axis = kw.get('axis', 0)
        if k == 'b' and ufunc in (numpy.add, numpy.logical_or, numpy.maximum): g, init = _lor, False
        elif k == 'b' and ufunc in (numpy.multiply, numpy.logical_and, numpy.minimum): g, init = _land, True
        elif ufunc is numpy.add: g, init = operator.add, 0
        elif ufunc is numpy.multiply: g, init = operator.mul, 1
        elif ufunc in (numpy.maximum, numpy.minimum): g, init = f, None
        elif ufunc is numpy.logical_or: g, init = lambda x, y: _lor(_truth(x), _truth(y)), False
        elif ufunc is numpy.logical_and: g, init = lambda x, y: _land(_truth(x), _truth(y)), True
        else: raise Unsupported(f'reduce {ufunc.__name__}')
        if axis is None:
            a = a.reshape(-1); axis = 0
        axes = (axis,) if isinstance(axis, int) else tuple(axis)
        axes = tuple(sorted(ax % a.ndim for ax in axes))
        for ax in reversed(axes):
            a = numpy.moveaxis(a, ax, 0)
            if len(a) == 0:
                if init is None: raise ValueError('zero-size reduction')
                r = numpy.empty(a.shape[1:], object); r.fill(NPDT[k].type(init).item())
            else:
                r = a[0]
                for i in range(1, len(a)):
                    r = _vec(g, 2)(r, a[i]) if isinstance(r, numpy.ndarray) and r.ndim else g(pyval(r) if not isinstance(r, numpy.ndarray) else r[()], a[i] if not isinstance(a[i], numpy.ndarray) else a[i][()])
            if not isinstance(r, numpy.ndarray):
                tmp = numpy.empty((), object); tmp[()] = r; r = tmp
            a = r
        kres = 'b' if ufunc in (numpy.logical_or, numpy.logical_and) else k
        return SArray(numpy.asarray(a, dtype=object) if not isinstance(a, numpy.ndarray) else a, kres)
    if method == 'at':
        target, idx, vals = inputs
        if ufunc is not numpy.add: raise Unsupported('at only for add')
        if not isinstance(target, SArray): raise Unsupported('add.at target')
        idx, sym = target._index(idx)
        v, vk = _prep(vals)
        v = _cast(v, vk, target.kind)
        if sym:
            _sym_setitem(target, idx, v, add=True)
        else:
            if target.kind == 'b':
                class _B:   # bool addition is logical or
                    __slots__ = ('v',)
                    def __init__(s, v): s.v = v
                    def __add__(s, o): return _B(_lor(s.v, o.v))
                tmp = _vec(_B)(target.a); numpy.add.at(tmp, idx, _vec(_B)(v)); target.a[...] = _vec(lambda b: b.v)(tmp)
            else:
                numpy.add.at(target.a, idx, v)
        return None
    if method == 'accumulate':
        x, = inputs
        a, k = _prep(x)
        return SArray(ufunc.accumulate(a, axis=kw.get('axis', 0)), 'i' if k == 'b' else k)
    raise Unsupported(f'ufunc method {method}')

def _truth(x):
    if isinstance(x, Sym): return x if x.kind == 'b' else x.cast('b')
    return bool(x)

def _cast(a, kfrom, kto):
    def conv(x):
        if isinstance(x, Sym): return x if x.kind == kto else x.cast(kto)
        x = pyval(x)
        if kto == 'b': return bool(x)
        if kto == 'i': return int(x) if not isinstance(x, bool) else int(x)
        if kto == 'f': return float(x)
        return complex(x)
    return _vec(conv)(a) if a.size else a.astype(object)

# ---------------------------------------------------------------- symbolic indexing

def _sym_axis(item, ndim):
    '''support exactly one symbolic integer index (0-d or array) at one axis, others full slices/ellipsis'''
    pos = [i for i, it in enumerate(item) if isinstance(it, (Sym, SArray))]
    if len(pos) != 1: raise Unsupported('multiple symbolic indices')
    p = pos[0]
    rest = item[:p] + item[p+1:]
    if any(not (r is Ellipsis or (isinstance(r, slice) and r == slice(None))) for r in rest):
        raise Unsupported('symbolic index mixed with non-trivial indices')
    if Ellipsis in item[:p]:
        axis = ndim - (len(item) - p)
    else:
        axis = p
    return axis, item[p]

def _in_range(i, n):
    t = lift(i, 'i').t
    ctx().defined.append(z3.And(t >= -n, t < n))
    return z3.If(t < 0, t + n, t)

def _sym_getitem(s, item):
    axis, idx = _sym_axis(item, s.ndim)
    a = numpy.moveaxis(s.a, axis, 0)
    n = len(a)
    ia = idx.a if isinstance(idx, SArray) else numpy.asarray(idx, dtype=object)
    def pick(i):
        if is_concrete(i): return a[i]
        t = _in_range(i, n)
        r = a[n-1]
        for j in range(n-2, -1, -1):
            r = _vec(lambda x, y, j=j: _ite(t == j, x, y), 2)(a[j], r)
        return r
    out = numpy.empty(ia.shape + a.shape[1:], object)
    for ii in numpy.ndindex(*ia.shape):
        pk = pick(ia[ii])
        if isinstance(pk, numpy.ndarray) and pk.ndim == 0: pk = pk[()]
        out[ii] = pk
    # move picked axes back to position axis
    out = numpy.moveaxis(out, list(range(ia.ndim)), list(range(axis, axis + ia.ndim)))
    return SArray(out, s.kind)

def _ite(c, x, y):
    if x is y: return x
    a, b = lift(x)._coerce(y) if not (isinstance(x, Sym) and x.kind == 'b' or isinstance(y, Sym) and y.kind == 'b' or isinstance(x, bool) or isinstance(y, bool)) else (lift(x, 'b'), lift(y, 'b'))
    if a.kind == 'c':
        return SCplx(z3.If(c, a.re, b.re), z3.If(c, a.im, b.im))
    return type(a)(z3.If(c, a.t, b.t))

def _sym_setitem(s, item, v, add):
    axis, idx = _sym_axis(item, s.ndim)
    a = numpy.moveaxis(s.a, axis, 0)  # view
    n = len(a)
    ia = idx.a if isinstance(idx, SArray) else numpy.asarray(idx, dtype=object)
    v = numpy.broadcast_to(v, s.a.shape[:axis] + ia.shape + s.a.shape[axis+1:]) if isinstance(v, numpy.ndarray) else v
    vv = numpy.moveaxis(v, list(range(axis, axis + ia.ndim)), list(range(ia.ndim))) if isinstance(v, numpy.ndarray) else None
    for ii in numpy.ndindex(*ia.shape):
        i = ia[ii]
        val = vv[ii] if vv is not None else v
        if is_concrete(i):
            a[i] = a[i] + val if add else val
            continue
        t = _in_range(i, n)
        for j in range(n):
            new = (a[j] + val) if add else (numpy.broadcast_to(val, a[j].shape) if isinstance(a[j], numpy.ndarray) else val)
            upd = _vec(lambda x, y, j=j: _ite(t == j, x, y), 2)(new, a[j])
            a[j] = upd[()] if isinstance(upd, numpy.ndarray) and upd.ndim == 0 else upd

# ---------------------------------------------------------------- numpy functions

HANDLED = {}
def handles(*funcs):
    def deco(f):
        for fn in funcs: HANDLED[fn] = f
        return f
    return deco

def _structural(fn, kindrule=None):
    def h(*args, **kwargs):
        kinds = []
        def unwrap(x):
            if isinstance(x, SArray):
                kinds.append(x.kind); return x.a
            if isinstance(x, (list, tuple)) and any(isinstance(y, (SArray, Sym)) for y in x):
                return type(x)(unwrap(SArray.wrap(y)) for y in x)
            return x
        a = [unwrap(x) for x in args]
        kw = {k: unwrap(v) for k, v in kwargs.items()}
        dt = kw.pop('dtype', None)       # concatenate/stack(..., dtype=...): the payload stays an object array, the requested dtype decides the kind
        r = fn(*a, **kw)
        k = (kindrule or _k_arith)(kinds) if dt is None else kind_of_dtype(dt)
        if isinstance(r, numpy.ndarray): return SArray(r if r.dtype == object else r.astype(object), k)
        if isinstance(r, (tuple, list)): return type(r)(SArray(x, k) for x in r)
        return SArray.wrap_elem(r, k)
    return h

for _fn in (numpy.transpose, numpy.moveaxis, numpy.swapaxes, numpy.reshape, numpy.ravel, numpy.expand_dims, numpy.squeeze,
            numpy.broadcast_to, numpy.concatenate, numpy.stack, numpy.diagonal, numpy.tile, numpy.flip, numpy.roll,
            numpy.einsum, numpy.dot, numpy.tensordot, numpy.trace, numpy.copy, numpy.atleast_1d, numpy.broadcast_arrays, numpy.diff):
    HANDLED[_fn] = _structural(_fn)

@handles(numpy.ix_)
def _ix(*args):
    conc = []
    for a in args:
        a = SArray.wrap(a)
        if not all(is_concrete(x) for x in a.a.flat): raise Unsupported('ix_ symbolic')
        conc.append(a.a.astype(NPDT[a.kind]))
    return numpy.ix_(*conc)
@handles(numpy.repeat)
def _repeat(a, repeats, axis=None):
    a = SArray.wrap(a)
    if isinstance(repeats, (SArray, Sym)):
        r = SArray.wrap(repeats)
        repeats = numpy.array([operator.index(x) for x in r.a.flat], dtype=int).reshape(r.shape) if r.ndim else operator.index(r.a[()])
    return SArray(numpy.repeat(a.a, repeats, axis), a.kind)
@handles(numpy.sum)
def _sum(a, axis=None, dtype=None, out=None, keepdims=False, **kw):
    a = SArray.wrap(a)
    if a.kind == 'b': a = a.astype(NPDT['i'])
    r = numpy.add.reduce(a, axis=axis)
    return r
@handles(numpy.prod)
def _prod(a, axis=None, **kw):
    a = SArray.wrap(a)
    if a.kind == 'b': a = a.astype(NPDT['i'])
    return numpy.multiply.reduce(a, axis=axis)
@handles(numpy.size)
def _size(a, axis=None): return a.size if axis is None else a.shape[axis]
@handles(numpy.vdot)
def _vdot(a, b):
    a, b = SArray.wrap(a).ravel(), SArray.wrap(b).ravel()
    return numpy.sum(numpy.conjugate(a) * b)
@handles(numpy.matmul)
def _matmul(a, b):
    a, b = SArray.wrap(a), SArray.wrap(b)
    if a.ndim == 1 and b.ndim == 1: return numpy.einsum('i,i->', a, b)
    if a.ndim == 1: return numpy.einsum('i,...ij->...j', a, b)
    if b.ndim == 1: return numpy.einsum('...ij,j->...i', a, b)
    return numpy.einsum('...ij,...jk->...ik', a, b)
@handles(numpy.compress)
def _compress(condition, a, axis=None):
    a = SArray.wrap(a)
    idx, = numpy.nonzero(numpy.asarray(condition, dtype=bool))
    return numpy.take(a, idx, axis=axis)
@handles(numpy.cross)
def _cross(a, b, axisa=-1, axisb=-1, axisc=-1, axis=None):
    a, b = SArray.wrap(a), SArray.wrap(b)
    if axis is not None or axisa != -1 or axisb != -1 or axisc != -1 or a.shape[-1] != 3 or b.shape[-1] != 3: raise Unsupported('cross variant')
    a, b = numpy.broadcast_arrays(a, b)
    return numpy.stack([a[..., 1] * b[..., 2] - a[..., 2] * b[..., 1], a[..., 2] * b[..., 0] - a[..., 0] * b[..., 2], a[..., 0] * b[..., 1] - a[..., 1] * b[..., 0]], axis=-1)
@handles(numpy.interp)
def _interp(x, xp, fp, left=None, right=None, period=None):
    if period is not None: raise Unsupported('interp period')
    x = SArray.wrap(x); xp = numpy.asarray(xp, dtype=float); fp = numpy.asarray(fp, dtype=float)
    left = fp[0] if left is None else left; right = fp[-1] if right is None else right
    def f(v):
        if is_concrete(v): return float(numpy.interp(v, xp, fp, left, right))
        t = lift(v).cast('f')
        r = lift(float(right))
        # numpy: x > xp[-1] -> right ; x == xp[-1] -> fp[-1] ; segments [xp[i], xp[i+1]) linear ; x < xp[0] -> left
        r = _ite((t == float(xp[-1])).t, lift(float(fp[-1])), r)
        for i in range(len(xp) - 2, -1, -1):
            slope = (fp[i + 1] - fp[i]) / (xp[i + 1] - xp[i])
            seg = lift(float(fp[i])) + (t - float(xp[i])) * float(slope)
            r = _ite((t < float(xp[i + 1])).t, seg, r)
        return _ite((t < float(xp[0])).t, lift(float(left)), r)
    return SArray(_vec(f)(x.a), 'f')
@handles(numpy.any)
def _any(a, axis=None, **kw): return numpy.logical_or.reduce(SArray.wrap(a), axis=axis)
@handles(numpy.all)
def _all(a, axis=None, **kw): return numpy.logical_and.reduce(SArray.wrap(a), axis=axis)
@handles(numpy.cumsum)
def _cumsum(a, axis=None, **kw):
    a = SArray.wrap(a)
    if axis is None: a = a.ravel(); axis = 0
    return numpy.add.accumulate(a, axis=axis)
@handles(numpy.copyto)
def _copyto(dst, src, **kw):
    if not isinstance(dst, SArray): raise Unsupported('copyto into concrete')
    s, k = _prep(src)
    dst.a[...] = _cast(s, k, dst.kind)
@handles(numpy.take)
def _take(a, indices, axis=None, **kw):
    a = SArray.wrap(a)
    if axis is None: a = a.ravel(); axis = 0
    item = (slice(None),) * (axis % a.ndim) + (indices if isinstance(indices, (SArray, Sym)) else numpy.asarray(indices),)
    return a[item]
@handles(numpy.choose)
def _choose(index, choices, **kw):
    idx = SArray.wrap(index)
    ch = [SArray.wrap(c) for c in choices]
    k = _k_arith([c.kind for c in ch])
    arrs = numpy.broadcast_arrays(idx.a, *[c.a for c in ch])
    n = len(ch)
    def pick(i, *cs):
        if is_concrete(i): return cs[i]
        t = lift(i, 'i').t
        ctx().defined.append(z3.And(t >= 0, t < n))
        r = cs[-1]
        for j in range(n - 2, -1, -1): r = _ite(t == j, cs[j], r)
        return r
    r = _vec(pick, n + 1)(*arrs)
    if not isinstance(r, numpy.ndarray):
        tmp = numpy.empty((), object); tmp[()] = r; r = tmp
    return SArray(r, k)
@handles(numpy.nonzero)
def _nonzero(a):
    a = SArray.wrap(a)
    conc = numpy.empty(a.shape, bool)
    for i in numpy.ndindex(*a.shape): conc[i] = bool(_truth(a.a[i]))   # forks on symbolic
    return tuple(SArray.wrap(x) for x in conc.nonzero())
@handles(numpy.linalg.det)
def _det(a):
    a = SArray.wrap(a)
    n = a.shape[-1]
    def det(m):
        if n == 0: return 1.
        if n == 1: return m[0, 0]
        if n == 2: return m[0, 0] * m[1, 1] - m[0, 1] * m[1, 0]
        if n == 3:
            return (m[0, 0] * (m[1, 1] * m[2, 2] - m[1, 2] * m[2, 1]) - m[0, 1] * (m[1, 0] * m[2, 2] - m[1, 2] * m[2, 0])
                    + m[0, 2] * (m[1, 0] * m[2, 1] - m[1, 1] * m[2, 0]))
        raise Unsupported('det n>3')
    out = numpy.empty(a.shape[:-2], object)
    for i in numpy.ndindex(*a.shape[:-2]): out[i] = det(a.a[i])
    return SArray(out, 'c' if a.kind == 'c' else 'f')
@handles(numpy.linalg.inv)
def _inv(a):
    a = SArray.wrap(a)
    n = a.shape[-1]
    d = _det(a)
    out = numpy.empty(a.shape, object)
    for i in numpy.ndindex(*a.shape[:-2]):
        m = a.a[i]; dd = d.a[i]
        ctx().defined.append(lift(dd).cast('f').t != 0 if a.kind != 'c' else z3.Or(lift(dd, 'c').re != 0, lift(dd, 'c').im != 0))
        if n == 1: adj = [[1.]]
        elif n == 2: adj = [[m[1, 1], -m[0, 1]], [-m[1, 0], m[0, 0]]]
        elif n == 3:
            c = lambda r0, r1, c0, c1: m[r0, c0] * m[r1, c1] - m[r0, c1] * m[r1, c0]
            adj = [[c(1, 2, 1, 2), -c(0, 2, 1, 2), c(0, 1, 1, 2)], [-c(1, 2, 0, 2), c(0, 2, 0, 2), -c(0, 1, 0, 2)], [c(1, 2, 0, 1), -c(0, 2, 0, 1), c(0, 1, 0, 1)]]
        else: raise Unsupported('inv n>3')
        for r in range(n):
            for cc in range(n): out[i + (r, cc)] = adj[r][cc] / dd
    return SArray(out, 'c' if a.kind == 'c' else 'f')
@handles(numpy.searchsorted)
def _searchsorted(a, v, side='left', sorter=None):
    a = SArray.wrap(a); v = SArray.wrap(v)
    if sorter is not None: a = a[sorter]
    cmp = operator.lt if side == 'left' else operator.le
    def cnt(x):
        r = 0
        for y in a.a:
            c = cmp(y, x)
            r = r + (c.cast('i') if isinstance(c, Sym) else int(c))
        return r
    r = _vec(cnt)(v.a)
    if not isinstance(r, numpy.ndarray):
        tmp = numpy.empty((), object); tmp[()] = r; r = tmp
    return SArray(r, 'i')
@handles(numpy.argsort)
def _argsort(a, axis=-1, kind=None, **kw):
    a = SArray.wrap(a)
    if a.ndim != 1: raise Unsupported('argsort nd')
    class K:
        def __init__(s, v): s.v = v
        def __lt__(s, o): return bool(s.v < o.v)
    idx = sorted(range(len(a.a)), key=lambda i: K(a.a[i]))
    return SArray.wrap(numpy.array(idx, dtype=int))
@handles(numpy.sort)
def _sort(a, axis=-1, **kw):
    a = SArray.wrap(a)
    if axis is None: a = a.ravel(); axis = 0
    if all(is_concrete(x) for x in a.a.flat):
        return SArray.wrap(numpy.sort(a.a.astype(NPDT[a.kind]), axis=axis))
    if a.shape[axis] == 2:      # two entries along the sorted axis: (min, max), no forking
        lo, hi = numpy.take(a, 0, axis=axis), numpy.take(a, 1, axis=axis)
        return numpy.stack([numpy.minimum(lo, hi), numpy.maximum(lo, hi)], axis=axis)
    if a.ndim != 1: raise Unsupported('sort nd symbolic')
    return a[_argsort(a)]
@handles(numpy.bincount)
def _bincount(x, weights=None, minlength=0):
    x = SArray.wrap(x)
    if not all(is_concrete(v) for v in x.a.flat): raise Unsupported('bincount symbolic index')
    xi = x.a.astype(int)
    n = max(int(xi.max()) + 1 if xi.size else 0, minlength)
    if weights is None: return SArray.wrap(numpy.bincount(xi, minlength=minlength))
    w = SArray.wrap(weights)
    out = numpy.zeros(n, object); out.fill(0. if w.kind != 'i' else 0)
    numpy.add.at(out, xi, w.a)
    return SArray(out, w.kind if w.kind != 'b' else 'i')
@handles(numpy.where)
def _where(c, x=None, y=None):
    if x is None: return _nonzero(c)
    c = SArray.wrap(c); x = SArray.wrap(x); y = SArray.wrap(y)
    k = _k_arith([x.kind, y.kind])
    cc, xx, yy = numpy.broadcast_arrays(c.a, _cast(x.a, x.kind, k), _cast(y.a, y.kind, k))
    def pick(ci, xi, yi):
        if is_concrete(ci): return xi if ci else yi
        return _ite(_truth(ci).t, xi, yi)
    return SArray(_vec(pick, 3)(cc, xx, yy), k)
@handles(numpy.array_equal)
def _array_equal(a, b, **kw):
    a, b = SArray.wrap(a), SArray.wrap(b)
    if a.shape != b.shape: return False
    return bool(numpy.all(a == b))
@handles(numpy.ravel_multi_index)
def _rmi(multi_index, dims, **kw):
    r = 0
    for i, n in zip(multi_index, dims): r = r * operator.index(n) + SArray.wrap(i)
    return r
@handles(numpy.linalg.solve)
def _lsolve(a, b):
    b = SArray.wrap(b)
    if b.ndim == 1: return numpy.einsum('...ij,...j->...i', _inv(a), b)
    return numpy.einsum('...ij,...jk->...ik', _inv(a), b)
NORM_ABSTRACT = [False]   # True: norm(x) = fresh n >= 0 with (n == 0 <=> x == 0) instead of n^2 == sum x^2
@handles(numpy.linalg.norm)
def _norm(a, ord=None, axis=None, **kw):
    a = SArray.wrap(a)
    if ord is not None: raise Unsupported('norm ord')
    if NORM_ABSTRACT[0]:
        if a.kind == 'c': raise Unsupported('abstract complex norm')
        ax = tuple(range(a.ndim)) if axis is None else ((axis,) if isinstance(axis, int) else tuple(axis))
        moved = numpy.moveaxis(a.a, ax, tuple(range(len(ax))))
        flat = moved.reshape((-1,) + moved.shape[len(ax):])
        out = numpy.empty(flat.shape[1:], object)
        for i in numpy.ndindex(*out.shape):
            xs = [lift(x).cast('f').t for x in flat[(slice(None),) + i]]
            n = ctx().fresh(z3.RealSort(), 'norm')
            ctx().side.append(z3.And(n >= 0, (n == 0) == z3.And(*[x == 0 for x in xs]) if xs else n == 0))
            out[i] = SReal(n)
        return SArray(out, 'f')
    sq = numpy.sum(a * numpy.conjugate(a) if a.kind == 'c' else a * a, axis=axis)
    sq = SArray.wrap(numpy.real(sq) if a.kind == 'c' else sq)
    # the radicand is a sum of squares: the root exists unconditionally (no guard, no definedness condition)
    out = numpy.empty(sq.shape, object)
    for i in numpy.ndindex(*sq.shape):
        x = sq.a[i]
        if is_concrete(x): out[i] = float(numpy.sqrt(float(x))); continue
        n = ctx().fresh(z3.RealSort(), 'norm')
        ctx().side.append(z3.And(n >= 0, n * n == lift(x).cast('f').t))
        out[i] = SReal(n)
    return SArray(out, 'f')
@handles(numpy.outer)
def _outer(a, b, out=None):
    a, b = SArray.wrap(a), SArray.wrap(b)
    return a.ravel()[:, numpy.newaxis] * b.ravel()[numpy.newaxis, :]
@handles(numpy.may_share_memory)
def _may_share(a, b, **kw):
    return numpy.may_share_memory(a.a if isinstance(a, SArray) else a, b.a if isinstance(b, SArray) else b)
@handles(numpy.shares_memory)
def _shares(a, b, **kw):
    return numpy.shares_memory(a.a if isinstance(a, SArray) else a, b.a if isinstance(b, SArray) else b)
@handles(numpy.real)
def _real(a): return SArray.wrap(a).real
@handles(numpy.imag)
def _imag(a): return SArray.wrap(a).imag
@handles(numpy.shape)
def _shape(a): return a.shape
@handles(numpy.ndim)
def _ndim(a): return a.ndim
@handles(numpy.zeros_like, numpy.empty_like)
def _zeros_like(a, dtype=None, **kw): return SArray.wrap(numpy.zeros(a.shape, dtype or a.dtype))

# ---------------------------------------------------------------- numpy proxy module

class _NDArrayMeta(type):
    def __instancecheck__(cls, obj): return isinstance(obj, (numpy.ndarray, SArray))
class _NDArray(metaclass=_NDArrayMeta):
    def __new__(cls, *args, **kw): return numpy.ndarray(*args, **kw)

class NPProxy(pytypes.ModuleType):
    ndarray = _NDArray
    def __init__(self):
        super().__init__('symnp')
    def __getattr__(self, n): return getattr(numpy, n)
    def empty(self, shape, dtype=float, **kw):
        # uninitialised memory holds ARBITRARY values: every entry is a fresh symbol, so a result that depends on an entry that was never written has a counterexample
        shape = _shape_tuple(shape); k = kind_of_dtype(numpy.dtype(dtype))
        try: c = ctx()
        except Exception: c = None
        if c is None or not UNINIT_SYMBOLIC[0] or int(numpy.prod(shape, dtype=int)) > 4096: return SArray.wrap(numpy.zeros(shape, dtype))
        sort = {'b': z3.BoolSort(), 'i': z3.IntSort(), 'f': z3.RealSort()}.get(k)
        out = numpy.empty(shape, object)
        for i in numpy.ndindex(*shape):
            if k == 'c': out[i] = SCplx(c.fresh(z3.RealSort(), 'uninit'), c.fresh(z3.RealSort(), 'uninit'))
            else: out[i] = {'b': SBool, 'i': SInt, 'f': SReal}[k](c.fresh(sort, 'uninit'))
        return SArray(out, k)
    def zeros(self, shape, dtype=float, **kw): return SArray.wrap(numpy.zeros(_shape_tuple(shape), dtype))
    def ones(self, shape, dtype=float, **kw): return SArray.wrap(numpy.ones(_shape_tuple(shape), dtype))
    def arange(self, *a, **kw): return SArray.wrap(numpy.arange(*[operator.index(x) for x in a], **kw))
    def asarray(self, a, dtype=None, **kw):
        a = _from_seq(a)
        if isinstance(a, (SArray, Sym)):
            a = SArray.wrap(a)
            return a if dtype is None else a.astype(numpy.dtype(dtype), copy=False)
        return SArray.wrap(numpy.asarray(a, dtype=dtype))
    def array(self, a, dtype=None, copy=True, **kw):
        r = self.asarray(a, dtype)
        return r.copy() if copy and r is a else r
    def full(self, shape, v, dtype=None, **kw):
        if isinstance(v, (SArray, Sym)):
            r = SArray.wrap(numpy.zeros(_shape_tuple(shape), NPDT[SArray.wrap(v).kind])); r.fill(SArray.wrap(v).a[()]); return r
        return SArray.wrap(numpy.full(_shape_tuple(shape), v, dtype))
    def cumsum(self, a, *args, **kw): return numpy.cumsum(_from_seq(a), *args, **kw)
    def stack(self, a, *args, **kw): return numpy.stack([_from_seq(x) for x in a], *args, **kw)
    def concatenate(self, a, *args, **kw): return numpy.concatenate([_from_seq(x) for x in a], *args, **kw)
    def int_(self, v):
        if isinstance(v, (SArray, Sym)): return SArray.wrap(v, 'i')
        return numpy.int_(v)

def _from_seq(x):
    '''lists/tuples containing symbolic items -> SArray'''
    if isinstance(x, (list, tuple)):
        items = [_from_seq(y) for y in x]
        if any(isinstance(y, (SArray, Sym)) for y in items):
            items = [SArray.wrap(y) for y in items]
            k = _k_arith([y.kind for y in items])
            return SArray(numpy.stack([_cast(y.a, y.kind, k) for y in items]) if items else numpy.empty((0,), object), k)
        return numpy.asarray(x)
    return x

def _shape_tuple(shape):
    if isinstance(shape, (tuple, list)): return tuple(operator.index(s) for s in shape)
    return (operator.index(shape),)

npproxy = NPProxy()
