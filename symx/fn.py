'''Function-level harness: function arrays whose leaves are per-point symbolic operands, lowered through the real
lowering protocol and executed symbolically.'''
import numpy, z3
from nutils import function, evaluable as ev
from .sarray import SArray
from .run import sym_compile

class PointArg(function.Array):
    '''leaf function array: an arbitrary (symbolic) value per point; lowers to an evaluable Argument of shape points_shape + shape'''
    def __init__(self, name, shape, dtype=float):
        self._name = name
        super().__init__(shape=tuple(shape), dtype=dtype, spaces=frozenset(), arguments={})
    def lower(self, args):
        return ev.Argument(self._name, tuple(args.points_shape) + tuple(ev.constant(n) for n in self.shape), self.dtype)

def lower(f, points_shape=()):
    la = function.LowerArgs(tuple(ev.constant(n) for n in points_shape), ())
    return f.lower(la)

def kind(dtype): return {bool: 'b', int: 'i', float: 'f', complex: 'c'}[dtype]

def symbolic_operands(spec, points_shape, prefix=''):
    '''spec: name -> (shape, dtype, range or None). returns (vals dict name -> SArray of shape points+shape, assumptions)'''
    vals, assume = {}, []
    for n, (shape, dtype, rng) in spec.items():
        v = SArray.symbolic(prefix + n, tuple(points_shape) + tuple(shape), kind(dtype))
        vals[n] = v
        if rng:
            for e in v.a.flat: assume.append(z3.And(e.t >= rng[0], e.t <= rng[1]))
    return vals, assume

def at_point(vals, p):
    return {n: v[p] for n, v in vals.items()}
