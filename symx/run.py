'''Run nutils-generated evaluation scripts (and nutils helper code) on symbolic arrays.

sym_compile(expr, **cfg) calls the real evaluable.compile and swaps the `numpy`,
`evaluable`, `numeric` and `poly` globals of the generated function for proxies.  While a
compiled function runs, `nutils.evaluable.numpy` and `nutils.numeric.numpy` are swapped
as well, so that the evalf helpers the script calls back into allocate symbolic arrays.
'''
import numpy, z3, types as pytypes, operator, contextlib, itertools, functools
from nutils import evaluable as ev, numeric
import nutils_poly as _poly
from .sym import *
from .sarray import *
from . import sym as _sym

STUBS = [
    "generated function globals: numpy -> symx.npproxy, evaluable -> EvProxy, numeric -> NumericProxy, poly -> PolyProxy",
    "nutils.evaluable.numpy / nutils.numeric.numpy -> symx.npproxy while a compiled function runs",
    "InsertAxis.evalf, InRange.evalf, NormDim.evalf, numeric.accumulate, numeric.inv, numeric.sinc adapters",
    "TransformBasis._transform_basis / TransformLinear._transform_linear run with real numpy (concrete transform chains)",
    "nutils_poly.eval_outer modelled (coefficient order validated against the extension at start-up)",
]

@contextlib.contextmanager
def symbolic_modules():
    saved = ev.numpy, numeric.numpy
    ev.numpy = numeric.numpy = npproxy
    try:
        yield
    finally:
        ev.numpy, numeric.numpy = saved

# ---------------------------------------------------------------- adapters

def _insertaxis(func, length):
    func = SArray.wrap(func)
    length = operator.index(length)
    a = func.a
    if length == 1:
        return SArray(a[..., numpy.newaxis], func.kind)
    try:
        r = numpy.ndarray(buffer=a, dtype=object, shape=(*a.shape, length), strides=(*a.strides, 0))
    except (ValueError, TypeError):
        r = numpy.repeat(a[..., numpy.newaxis], length, -1)
    return SArray(r, func.kind)

def _inrange(index, length):
    index = SArray.wrap(index)
    n = lift(pyval(SArray.wrap(length).a[()]), 'i')
    for x in index.a.flat:
        c = lift(x, 'i')
        ctx().defined.append(z3.And(c.t >= 0, c.t < n.t))
    return index

def _normdim(length, index):
    length, index = SArray.wrap(length), SArray.wrap(index)
    out = numpy.empty(index.shape, object)
    for i in numpy.ndindex(*index.shape):
        n, x = lift(length.a[i], 'i'), lift(index.a[i], 'i')
        ctx().defined.append(z3.And(x.t >= -n.t, x.t < n.t))
        out[i] = SInt(z3.If(x.t < 0, x.t + n.t, x.t))
    return SArray(out, 'i')

def _transform_coords(chain, coords):
    '''affine maps of the (concrete) transform chain applied to symbolic coordinates'''
    c = SArray.wrap(coords)
    for t in reversed(chain):
        lin = numpy.asarray(t.linear, dtype=float); off = numpy.asarray(t.offset, dtype=float)
        if lin.shape[1] == 0:
            c = SArray.wrap(numpy.broadcast_to(off, c.shape[:-1] + off.shape).copy())
        else:
            c = numpy.einsum('...j,ij->...i', c, SArray.wrap(lin)) + SArray.wrap(off)
    return c

@contextlib.contextmanager
def concrete_modules():
    '''real numpy inside nutils helpers that act on CONCRETE data (transform chains); nothing symbolic may be cached on nutils objects'''
    saved = ev.numpy, numeric.numpy
    ev.numpy = numeric.numpy = numpy
    try:
        yield
    finally:
        ev.numpy, numeric.numpy = saved

def _concrete_helper(cls, name):
    real = getattr(cls, name)
    def call(*args):
        with concrete_modules():
            return SArray.wrap(numpy.asarray(real(*args), dtype=float))
    return call

ADAPT = {('TransformCoords', '_transform_coords'): _transform_coords,
         ('TransformBasis', '_transform_basis'): _concrete_helper(ev.TransformBasis, '_transform_basis'),
         ('TransformLinear', '_transform_linear'): _concrete_helper(ev.TransformLinear, '_transform_linear'), ('InsertAxis', 'evalf'): _insertaxis, ('InRange', 'evalf'): _inrange, ('NormDim', 'evalf'): _normdim}

class _ClsProxy:
    def __init__(self, cls): self._cls = cls
    def __call__(self, *a, **kw): return self._cls(*a, **kw)
    def __getattr__(self, n):
        ad = ADAPT.get((self._cls.__name__, n))
        return ad if ad else getattr(self._cls, n)

class EvProxy(pytypes.ModuleType):
    def __init__(self): super().__init__('evproxy')
    def __getattr__(self, n):
        v = getattr(ev, n)
        return _ClsProxy(v) if isinstance(v, type) else v

class NumericProxy(pytypes.ModuleType):
    def __init__(self): super().__init__('numericproxy')
    def __getattr__(self, n): return getattr(numeric, n)
    def inv(self, A): return numpy.linalg.inv(SArray.wrap(A))
    def accumulate(self, data, index, shape):
        shape = tuple(operator.index(n) for n in shape)
        data = SArray.wrap(data)
        if not shape: return numpy.sum(data)
        out = SArray.wrap(numpy.zeros(shape, data.dtype))
        index = tuple(index)
        bshape = numpy.broadcast_shapes(data.shape, *[numpy.shape(i) for i in index])
        idx = tuple(i if isinstance(i, SArray) else numpy.asarray(i) for i in index)
        if any(isinstance(i, SArray) and not all(is_concrete(x) for x in i.a.flat) for i in idx):
            # symbolic indices: element-wise scatter
            bidx = [numpy.broadcast_to(i.a if isinstance(i, SArray) else i, bshape) for i in idx]
            d = numpy.broadcast_to(data.a, bshape)
            for p in numpy.ndindex(*bshape):
                _scatter_add(out, [b[p] for b in bidx], d[p])
            return out
        idx = tuple(i.a.astype(int) if isinstance(i, SArray) else i for i in idx)
        numpy.add.at(out.a, idx, numpy.broadcast_to(data.a, bshape))
        return out
    def sinc(self, x, n):
        raise Unsupported('sinc')

def _scatter_add(out, idx, val):
    '''out[idx] += val for a tuple of (possibly symbolic) scalar indices'''
    from .sarray import _ite
    conc = all(is_concrete(i) for i in idx)
    if conc:
        t = tuple(int(i) for i in idx)
        out.a[t] = out.a[t] + val
        return
    for p in numpy.ndindex(*out.shape):
        cond = []
        for i, pi, n in zip(idx, p, out.shape):
            if is_concrete(i):
                if int(i) % n != pi: break
            else:
                t = lift(i, 'i').t
                cond.append(z3.Or(t == pi, t == pi - n))
        else:
            out.a[p] = _ite(z3.And(*cond) if cond else z3.BoolVal(True), out.a[p] + val, out.a[p])
    for i, n in zip(idx, out.shape):
        if not is_concrete(i):
            t = lift(i, 'i').t
            ctx().defined.append(z3.And(t >= -n, t < n))

# ---------------------------------------------------------------- polynomial model

@functools.lru_cache(None)
def _powers(nvars, degree):
    ps = [p for p in itertools.product(range(degree + 1), repeat=nvars) if sum(p) <= degree]
    ps.sort(key=lambda p: tuple(-x for x in reversed(p)))
    return tuple(ps)

def poly_eval_model(coeffs, x):
    '''value of polynomial with coefficient vector coeffs (object/number sequence) at point x (sequence)'''
    nvars, n = len(x), len(coeffs)
    degree = _poly.degree(nvars, n)
    r = 0.
    for c, p in zip(coeffs, _powers(nvars, degree)):
        if is_concrete(c) and c == 0: continue
        term = c
        for xi, k in zip(x, p):
            for _ in range(k): term = term * xi
        r = r + term
    return r

class PolyProxy(pytypes.ModuleType):
    def __init__(self): super().__init__('polyproxy')
    def __getattr__(self, n):
        real = getattr(_poly, n)
        # the remaining nutils_poly entry points (mul, grad, change_degree, MulPlan, GradPlan, ...) act on COEFFICIENT arrays; these are concrete in
        # every program of the families (basis tables), so the real extension is called on the concrete payload; symbolic coefficients are unsupported
        def conc(a):
            if isinstance(a, SArray):
                if not all(is_concrete(v) for v in a.a.flat): raise Unsupported(f'nutils_poly.{n} on symbolic coefficients')
                r = a.a.astype({'b': bool, 'i': int, 'f': float, 'c': complex}[a.kind])
                return r[()].item() if r.ndim == 0 else r
            if isinstance(a, (tuple, list)): return type(a)(conc(x) for x in a)
            return a
        def wrapcall(f):
            def call(*args, **kw):
                r = f(*[conc(a) for a in args], **{k: conc(v) for k, v in kw.items()})
                return SArray.wrap(r) if isinstance(r, numpy.ndarray) else r
            return call
        if isinstance(real, type):
            if n.endswith('Plan'): return lambda *args, **kw: wrapcall(real(*[conc(a) for a in args], **{k: conc(v) for k, v in kw.items()}))
            return real
        if not callable(real): return real
        return wrapcall(real)
    def eval_outer(self, coeffs, points):
        # result shape: points.shape[:-1] + coeffs.shape[:-1]
        pts, cf = SArray.wrap(points), SArray.wrap(coeffs)
        if all(is_concrete(v) for v in pts.a.flat) and all(is_concrete(v) for v in cf.a.flat):
            return SArray.wrap(_poly.eval_outer(cf.a.astype(float), pts.a.astype(float)))
        out = numpy.empty(pts.shape[:-1] + cf.shape[:-1], object)
        if cf.shape[-1] == 0:
            out.fill(0.)
            return SArray(out, 'f')
        for ip in numpy.ndindex(*pts.shape[:-1]):
            for ic in numpy.ndindex(*cf.shape[:-1]):
                out[ip + ic] = poly_eval_model(list(cf.a[ic]), list(pts.a[ip]))
        return SArray(out, 'f')

def selftest_poly():
    rng = numpy.random.default_rng(0)
    for nvars in (0, 1, 2, 3):
        for degree in (0, 1, 2, 3):
            n = _poly.ncoeffs(nvars, degree)
            c = rng.integers(-4, 5, size=(2, n)).astype(float); x = rng.integers(-3, 4, size=(3, nvars)).astype(float)
            real = _poly.eval_outer(c, x)
            mod = numpy.array([[poly_eval_model(list(ci), list(xi)) for ci in c] for xi in x], dtype=float)
            if real.shape != mod.shape or not numpy.allclose(real, mod, atol=1e-12):
                return False
    return True

# ---------------------------------------------------------------- compile

_EVP, _NUP, _POP = EvProxy(), NumericProxy(), PolyProxy()

def sym_compile(expr, object_constants=False, **kw):
    '''object_constants: float/complex array constants of the script become object arrays as well, so that views of cached constant intermediates
    alias their buffers exactly as in production (needed where aliasing between calls is the subject: C03)'''
    kw.setdefault('cache_const_intermediates', False)
    f = ev.compile(expr, **kw)
    g = f.__globals__
    if object_constants:
        for k, v in list(g.items()):
            if k.startswith('c') and isinstance(v, numpy.ndarray) and v.dtype.kind in 'fc' and v.ndim:
                g[k] = SArray.wrap(v)
    g['numpy'] = npproxy
    g['evaluable'] = _EVP
    g['numeric'] = _NUP
    g['poly'] = _POP
    @functools.wraps(f)
    def run(*args, **kwargs):
        with symbolic_modules():
            return f(*args, **kwargs)
    run.raw = f
    return run

def sym_eval(expr, args, **kw):
    return sym_compile(expr, **kw)(args)
