'''Forward-mode dual numbers over z3 reals: the independent calculus oracle of C04 (and C08/C13).

A Dual is an SReal (value .t) with a tangent .d; arithmetic follows the textbook rules, transcendental functions are the
same uninterpreted symbols as in symx.sym with their textbook derivatives.  Kinks (abs, sign, min, max at ties) add a
differentiability side condition to the run's `defined` list.'''
import z3, fractions
from . import sym as _sym, sarray as _sa
from .sym import SReal, SBool, SInt, Sym, lift, ctx, UF, Unsupported, is_concrete

class Dual(SReal):
    __slots__ = ('d',)
    kind = 'f'
    def __init__(s, t, d): s.t = t; s.d = d
    def cast(s, k):
        if k == 'f': return s
        if k == 'b': return SBool(s.t != 0)
        raise Unsupported('dual cast to ' + k)
    def __repr__(s): return f'Dual({z3.simplify(s.t)}; {z3.simplify(s.d)})'

def D(x):
    if isinstance(x, Dual): return x
    x = lift(x)
    if x.kind == 'c': raise Unsupported('complex dual')
    x = x.cast('f')
    return Dual(x.t, z3.RealVal(0))

def _add(a, b): a, b = D(a), D(b); return Dual(a.t + b.t, a.d + b.d)
def _sub(a, b): a, b = D(a), D(b); return Dual(a.t - b.t, a.d - b.d)
def _mul(a, b): a, b = D(a), D(b); return Dual(a.t * b.t, a.d * b.t + a.t * b.d)
def _neg(a): a = D(a); return Dual(-a.t, -a.d)
def _div(a, b):
    a, b = D(a), D(b); ctx().defined.append(b.t != 0)
    return Dual(a.t / b.t, (a.d * b.t - a.t * b.d) / (b.t * b.t))
def _pow(a, b):
    a, b = D(a), D(b)
    bt, bd = z3.simplify(b.t), z3.simplify(b.d)
    if z3.is_rational_value(bt) and z3.is_rational_value(bd) and bd.as_fraction() == 0:
        f = bt.as_fraction()
        v = SReal(a.t)._pow(SReal(bt))
        if f == 0: return Dual(v.t, z3.RealVal(0))
        vm1 = SReal(a.t)._pow(SReal(z3.RealVal(f - 1)))
        return Dual(v.t, z3.RealVal(f) * vm1.t * a.d)
    # general power: x**y, d = y x**(y-1) dx + log(x) x**y dy   (x > 0)
    ctx().defined.append(a.t > 0)
    v = UF('pow', a.t, b.t)
    return Dual(v, b.t * UF('pow', a.t, b.t - 1) * a.d + UF('log', a.t) * v * b.d)
for _k, _v in dict(_add=_add, _sub=_sub, _mul=_mul, _neg=_neg, _div=_div, _pow=_pow).items(): setattr(Dual, _k, _v)

def _abs(s):
    ctx().defined.append(s.t != 0)
    return Dual(z3.If(s.t >= 0, s.t, -s.t), z3.If(s.t >= 0, s.d, -s.d))
Dual.__abs__ = _abs

def _u(name, dfn, dom=None):
    def f(s):
        s = D(s)
        if dom is not None: ctx().defined.append(dom(s.t))
        return Dual(UF(name, s.t), dfn(s.t) * s.d)
    return f
_one = z3.RealVal(1)
def _sqrt1m(x):   # 1/sqrt(1-x^2) with the same root encoding as SReal._pow
    return (lift(1.) / SReal(1 - x * x)._pow(lift(.5))).t
Dual.sin = _u('sin', lambda x: UF('cos', x)); Dual.cos = _u('cos', lambda x: -UF('sin', x))
Dual.tan = _u('tan', lambda x: 1 / (UF('cos', x) * UF('cos', x)), lambda x: UF('cos', x) != 0)
Dual.exp = _u('exp', lambda x: UF('exp', x)); Dual.log = _u('log', lambda x: 1 / x, lambda x: x > 0)
Dual.sinh = _u('sinh', lambda x: UF('cosh', x)); Dual.cosh = _u('cosh', lambda x: UF('sinh', x))
Dual.tanh = _u('tanh', lambda x: 1 - UF('tanh', x) * UF('tanh', x))
Dual.arctan = _u('arctan', lambda x: 1 / (1 + x * x))
Dual.arcsin = _u('arcsin', _sqrt1m, lambda x: z3.And(x > -1, x < 1)); Dual.arccos = _u('arccos', lambda x: -_sqrt1m(x), lambda x: z3.And(x > -1, x < 1))
Dual.arctanh = _u('arctanh', lambda x: 1 / (1 - x * x), lambda x: z3.And(x > -1, x < 1))
Dual.sqrt = lambda s: _pow(s, lift(.5))
Dual.reciprocal = lambda s: _div(lift(1.), s)
Dual.conjugate = lambda s: s

# ---- hooks into the scalar/array layers so that Duals survive coercion, selection and min/max/sign

_orig_coerce = Sym._coerce
def _coerce(self, other):
    if isinstance(self, Dual) or isinstance(other, Dual):
        if isinstance(other, float) and other in (float('inf'), float('-inf')): raise _sym._Inf(other)
        return D(self), D(other)
    return _orig_coerce(self, other)
Sym._coerce = _coerce

_orig_ite = _sa._ite
def _ite(c, x, y):
    if isinstance(x, Dual) or isinstance(y, Dual):
        if x is y: return x
        a, b = D(x), D(y)
        return Dual(z3.If(c, a.t, b.t), z3.If(c, a.d, b.d))
    return _orig_ite(c, x, y)
_sa._ite = _ite

def _minmax(orig, pick_first):
    def f(x, y):
        if isinstance(x, Dual) or isinstance(y, Dual):
            a, b = D(x), D(y)
            ctx().defined.append(a.t != b.t)
            c = pick_first(a.t, b.t)
            return Dual(z3.If(c, a.t, b.t), z3.If(c, a.d, b.d))
        return orig(x, y)
    return f
_sa._maximum = _minmax(_sa._maximum, lambda a, b: a >= b)
_sa._minimum = _minmax(_sa._minimum, lambda a, b: a <= b)
_sa.UFT[_sa.numpy.maximum] = (_sa._maximum, _sa.UFT[_sa.numpy.maximum][1])
_sa.UFT[_sa.numpy.minimum] = (_sa._minimum, _sa.UFT[_sa.numpy.minimum][1])
_orig_sign = _sa._sign
def _sign(x):
    if isinstance(x, Dual):
        ctx().defined.append(x.t != 0)
        return Dual(z3.If(x.t > 0, z3.RealVal(1), z3.If(x.t < 0, z3.RealVal(-1), z3.RealVal(0))), z3.RealVal(0))
    return _orig_sign(x)
_sa._sign = _sign
_sa.UFT[_sa.numpy.sign] = (_sign, _sa.UFT[_sa.numpy.sign][1])
_orig_arctan2 = _sa._arctan2
def _arctan2(y, x):
    if isinstance(x, Dual) or isinstance(y, Dual):
        a, b = D(y), D(x)
        ctx().defined.append(z3.Or(a.t != 0, b.t != 0))
        den = a.t * a.t + b.t * b.t
        return Dual(UF('arctan2', a.t, b.t), (b.t * a.d - a.t * b.d) / den)
    return _orig_arctan2(y, x)
_sa._arctan2 = _arctan2
_sa.UFT[_sa.numpy.arctan2] = (_arctan2, _sa.UFT[_sa.numpy.arctan2][1])

def seed(values, tangents):
    '''SArray of Duals with the given SArray values and tangents'''
    import numpy
    out = numpy.empty(values.shape, object)
    for i in numpy.ndindex(*values.shape):
        out[i] = Dual(lift(values.a[i]).cast('f').t, lift(tangents.a[i]).cast('f').t)
    return _sa.SArray(out, 'f')

def tangent(r):
    import numpy
    out = numpy.empty(r.shape, object)
    for i in numpy.ndindex(*r.shape):
        x = r.a[i]
        out[i] = SReal(x.d) if isinstance(x, Dual) else 0.
    return _sa.SArray(out, 'f')

def value(r):
    import numpy
    out = numpy.empty(r.shape, object)
    for i in numpy.ndindex(*r.shape):
        x = r.a[i]
        out[i] = SReal(x.t) if isinstance(x, Dual) else x
    return _sa.SArray(out, r.kind)
