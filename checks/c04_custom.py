'''C04, user-defined operations: the chain rule plumbing of function.Custom / _CustomEvaluable._derivative.

The user supplies evalf and partial_derivative; what nutils owns is how the partials are combined with the derivatives of the
operands (loop over arguments, points axes, pointwise axes, shared targets).  The harness defines a few Custom operations whose
evalf is ordinary NumPy code (so it runs on symbolic arrays and on dual numbers unchanged), builds function arrays in which the
derivative target reaches an operation through several operands, differentiates with the real function.derivative, lowers,
compiles and runs the result on z3 terms.  Oracle: dual-number tangent of the un-simplified, un-optimised script of f.'''
import numpy, z3, warnings
from symx import tv, solve, fn, dual
from symx.sym import explore, ctx, Unsupported, PathAbort
from symx.sarray import SArray
from symx.run import sym_compile
from symx.harness import Timeout, with_timeout
from nutils import function, evaluable as ev, types
import treelog

class CMul(function.Custom):
    'elementwise product of two 1-d arrays, no pointwise axes'
    def __init__(self, a, b):
        a, b = function.broadcast_arrays(a, b)
        super().__init__(args=(a, b), shape=a.shape, dtype=float)
    @types.hashable_function
    def evalf(a, b): return a * b
    @types.hashable_function
    def partial_derivative(iarg, a, b):
        other = (b, a)[iarg]
        n = other.shape[0]
        return other[:, numpy.newaxis] * numpy.eye(n)

class CMulP(function.Custom):
    'the multiplication example of the documentation: all axes pointwise'
    def __init__(self, a, b):
        a, b = function.broadcast_arrays(a, b)
        super().__init__(args=(a, b), shape=(), dtype=float, npointwise=a.ndim)
    @types.hashable_function
    def evalf(a, b): return a * b
    @types.hashable_function
    def partial_derivative(iarg, a, b): return (b, a)[iarg]

class CDot(function.Custom):
    'inner product over the last axis; leading axis pointwise'
    def __init__(self, a, b):
        a, b = function.broadcast_arrays(a, b)
        super().__init__(args=(a, b), shape=(), dtype=float, npointwise=a.ndim - 1)
    @types.hashable_function
    def evalf(a, b): return numpy.sum(a * b, axis=-1)
    @types.hashable_function
    def partial_derivative(iarg, a, b): return (b, a)[iarg]

class CRoll(function.Custom):
    'numpy.roll over the last axis with constant shift (a non-Array constructor argument)'
    def __init__(self, a, shift):
        a = function.asarray(a)
        super().__init__(args=(a, shift), shape=a.shape[-1:], dtype=float, npointwise=a.ndim - 1)
    @types.hashable_function
    def evalf(a, shift): return numpy.roll(a, shift, 1)
    @types.hashable_function
    def partial_derivative(iarg, a, shift):
        if iarg == 0: return CRoll(numpy.eye(a.shape[0]), shift).T
        raise NotImplementedError

ARGS = {'x': (2,), 'y': (2,), 'X': (2, 2), 's': ()}
DIR = {'x': 'dx', 'y': 'dy', 'X': 'dX', 's': 'ds'}
def A(n): return function.Argument(n, ARGS[n])

def functions():
    x, y, X, s = A('x'), A('y'), A('X'), A('s')
    return {
        'mul(x,x^2)': lambda: CMul(x, x ** 2),                     # the target itself AND an operand depending on it
        'mul(sin x,x)': lambda: CMul(numpy.sin(x), x),
        'mul(x,y)': lambda: CMul(x, y),
        'mul(mul(x,y),x)': lambda: CMul(CMul(x, y), x),
        'mulp(x,x*y)': lambda: CMulP(x, x * y),
        'mulp(X,X.T)': lambda: CMulP(X, X.T),
        'mulp(x*s,s)': lambda: CMulP(x * s, s),
        'dot(X,X)': lambda: CDot(X, X),
        'dot(X,x)': lambda: CDot(X, x[numpy.newaxis, :] * x[:, numpy.newaxis]),
        'roll(x*x)': lambda: CRoll(x * x, 1) * x,
        'roll(X)': lambda: CRoll(X * X.T, 1),
        'sum mul(x,x)*y': lambda: (CMul(x, x) * y).sum(0) * s,
    }

def cases(tier):
    C = []
    for name, f in functions().items():
        fa = sorted(function.Array.cast(f()).arguments)
        for t in fa:
            C.append(('custom', name, t, 1))
            if tier == 'thorough' or name in ('mul(x,x^2)', 'mulp(x,x*y)', 'dot(X,X)'): C.append(('custom', name, t, 2))
    return C

def _names(f): return sorted(function.Array.cast(f).arguments)

def _setup(name, target, order):
    f = functions()[name]()
    if order == 2: f = function.derivative(f, target)     # the (separately verified) first derivative is the function to differentiate
    g = function.derivative(f, target)
    return f, g

def case(item):
    _, name, target, order = item
    key = f'custom:{name}:d/d{target}' + (':order2' if order == 2 else '')
    res = dict(key=key, viol=[], unconfirmed=[], q=dict(exact_unsat=0, margin_unsat=0, sat=0, unknown=0, trivial=0), paths=0, status='ok', nontrivial=False)
    try:
        with treelog.set(treelog.NullLog()), warnings.catch_warnings():
            warnings.simplefilter('ignore')
            f, g = _setup(name, target, order)
            ef = fn.lower(function.Array.cast(f), ()); eg = fn.lower(function.Array.cast(g), ())
            fg = with_timeout(60, lambda: sym_compile(eg))
            ff = with_timeout(60, lambda: sym_compile(ef, _simplify=False, _optimize=False))
    except Timeout:
        res['status'] = 'timeout'; return res
    except Exception as ex:
        res['viol'].append((f'{key}: derivative of a user-defined operation raised {type(ex).__name__}: {ex}'[:300], dict(item=list(item), kind='raises'))); return res
    allnames = sorted(set(_names(f)) | set(_names(g)))
    xshape = ARGS[target]
    want = tuple(int(n) for n in function.Array.cast(f).shape) + tuple(xshape)
    if tuple(int(n) for n in function.Array.cast(g).shape) != want:
        res['viol'].append((f'{key}: derivative has shape {function.Array.cast(g).shape}, expected {want}', dict(item=list(item), kind='shape'))); return res
    def run():
        vals = {n: SArray.symbolic(n, ARGS[n]) for n in allnames}
        dx = SArray.symbolic(DIR[target], xshape)
        Jv = SArray.wrap(fg({n: vals[n] for n in _names(g)}))
        nd = len(xshape)
        lhs = numpy.sum((Jv * dx).reshape(Jv.shape[:Jv.ndim - nd] + (-1,)), axis=-1) if nd else Jv * dx
        d0 = list(ctx().defined)
        dvals = {n: vals[n] for n in _names(f)}
        dvals[target] = dual.seed(vals[target], dx)
        r = SArray.wrap(ff(dvals))
        return dual.tangent(r), lhs, vals, dx, list(ctx().defined)
    try:
        paths, _ = with_timeout(120, lambda: explore(run, max_paths=4, timeout_ms=10000))
    except Timeout:
        res['status'] = 'timeout'; return res
    P = paths[0]
    if P.tag != 'ok':
        res['status'] = P.tag; res['note'] = str(P.value)[:200]; return res
    tang, lhs, vals, dx, defined = P.value
    if solve.structure(tang)[1] != solve.structure(lhs)[1]:
        res['viol'].append((f'{key}: contracted derivative has shape {lhs.shape}, function has shape {tang.shape}', dict(item=list(item), kind='shape'))); return res
    v = solve.equiv(tang, lhs, pc=P.pc, defined=defined, side=P.side, timeout_ms=10000, margin=1e-9, budget_s=40)
    for k, n in v.counts().items(): res['q'][k] += n
    detail = ''
    for idx, m in v.models[:2]:
        cv = {n: numpy.asarray(a, dtype=float) for n, a in solve.concretize(m, vals).items()}
        d = numpy.asarray(solve.concretize(m, dx), dtype=float)
        ok, detail = replay(item, cv, d)
        if ok:
            res['viol'].append((f'{key}: derivative is wrong at {tv.tolist(cv)} direction {tv.tolist(d)}: {detail}'[:600], dict(item=list(item), kind='value', arguments=tv.tolist(cv), direction=tv.tolist(d)))); break
    else:
        if v.models: res['unconfirmed'].append(f'{key}: model did not reproduce ({detail})')
    res['nontrivial'] = res['q']['exact_unsat'] + res['q']['margin_unsat'] + res['q']['sat'] > 0
    return res

def replay(item, cv, d):
    '''real code, real numpy: central finite differences of function.eval(f) against the contracted function.eval(derivative)'''
    _, name, target, order = item
    with treelog.set(treelog.NullLog()), numpy.errstate(all='ignore'), warnings.catch_warnings():
        warnings.simplefilter('ignore')
        try:
            f, g = _setup(name, target, order)
            E = lambda h, a: function.eval(h, arguments={n: numpy.asarray(a[n], dtype=float) for n in _names(h)})
            Jv = E(g, cv)
            d = numpy.asarray(d, dtype=float).reshape(ARGS[target])
            lhs = numpy.tensordot(Jv, d, axes=d.ndim) if d.ndim else Jv * d
            errs = []
            for h in (1e-4, 1e-5, 1e-6):
                ap = dict(cv); am = dict(cv); ap[target] = numpy.asarray(cv[target]) + h * d; am[target] = numpy.asarray(cv[target]) - h * d
                errs.append(float(numpy.max(numpy.abs((E(f, ap) - E(f, am)) / (2 * h) - lhs), initial=0.)))
        except Exception as ex:
            return True, f'raised {type(ex).__name__}: {ex}'
    if not numpy.isfinite(errs).all(): return False, 'not finite'
    if min(errs) > 1e-4 * max(1., float(numpy.max(numpy.abs(lhs), initial=0.))):
        return True, f'directional derivative {tv.tolist(lhs)} but finite differences differ by {min(errs):.3g}'
    return False, f'finite differences agree ({min(errs):.2g})'
