'''C09, point-set algebra: the containers that build quadrature rules of tensor, child and mosaic elements from the rules of their parts
(points.TensorPoints, TransformPoints, ConcatPoints) are executed on point sets with SYMBOLIC coordinates and weights.

A product / transformed / concatenated rule is exact whenever its parts are iff the weight that ends up next to a coordinate row is the one that
belongs to it.  Because every coordinate is a distinct symbol, the row of the result identifies which points of the parts it came from; z3 then decides
  tensor:     the weight of row (c1[i], c2[j]) is w1[i]*w2[j]                      for all values, every (i,j) occurs exactly once
  transform:  the weight of the image of point i is w[i]*|det| (so weights stay non-negative and sum to the image volume)
  concat:     every kept row carries its own weight plus the weights of the points declared duplicates of it; nothing else is dropped.'''
import types as pytypes, numpy, z3, itertools
from symx import solve
from symx.sym import explore, SReal, lift
from symx.sarray import SArray, npproxy
from nutils import points as npoints, types as ntypes, transform, element

class _TypesProxy(pytypes.ModuleType):
    def __init__(s): super().__init__('types_for_points')
    def __getattr__(s, n): return getattr(ntypes, n)
    @staticmethod
    def frozenarray(a, copy=True, dtype=None): return a

class SymPoints(npoints.Points):
    'a point set whose coordinates and weights are symbols'
    def __init__(self, tag: str, npts: int, ndims: int):
        self.tag = tag
        super().__init__(npts, ndims)
    @property
    def coords(self): return SArray.symbolic(f'{self.tag}c', (self.npoints, self.ndims))
    @property
    def weights(self): return SArray.symbolic(f'{self.tag}w', (self.npoints,))

class _patched:
    def __enter__(s):
        s.saved = npoints.numpy, npoints.types
        npoints.numpy = npproxy; npoints.types = _TypesProxy()
    def __exit__(s, *a):
        npoints.numpy, npoints.types = s.saved

def _fresh(obj, *names):
    for n in names: obj.__dict__.pop(n, None)

def _row_ids(coords):
    'per result row: the tuple of symbol names found in it'
    return [tuple(str(z3.simplify(lift(x).t)) for x in row) for row in coords.a]

def tensor_case(n1, d1, n2, d2):
    label = f'TensorPoints of {n1} points in {d1}-D and {n2} points in {d2}-D'
    out = dict(label=label, unsat=0, sat=[], unknown=0, errors=[])
    def run():
        with _patched():
            P1, P2 = SymPoints('p', n1, d1), SymPoints('q', n2, d2)
            T = npoints.TensorPoints(P1, P2); _fresh(T, 'coords', 'weights')
            return T.coords, T.weights, T.npoints
    paths, complete = explore(run, max_paths=4)
    P = paths[0]
    if P.tag != 'ok': out['errors'].append(f'{P.tag}: {P.value}'); return out
    coords, weights, npts = P.value
    coords, weights = SArray.wrap(coords), SArray.wrap(weights)
    if tuple(coords.shape) != (n1 * n2, d1 + d2) or tuple(weights.shape) != (n1 * n2,) or npts != n1 * n2:
        out['sat'].append(dict(kind='shape', detail=f'coords {coords.shape} weights {weights.shape}')); return out
    seen = set()
    w1 = SArray.symbolic('pw', (n1,)); w2 = SArray.symbolic('qw', (n2,))
    want = numpy.empty(n1 * n2, object)
    for k, ids in enumerate(_row_ids(coords)):
        try:
            i = {int(s.split('_')[1]) for s in ids[:d1]}; j = {int(s.split('_')[1]) for s in ids[d1:]}
            assert len(i) == 1 and len(j) == 1 and all(s.startswith('pc_') for s in ids[:d1]) and all(s.startswith('qc_') for s in ids[d1:])
            assert [int(s.split('_')[2]) for s in ids[:d1]] == list(range(d1)) and [int(s.split('_')[2]) for s in ids[d1:]] == list(range(d2))
        except Exception:
            out['sat'].append(dict(kind='coords', detail=f'row {k} is not a pair of part rows: {ids}')); return out
        i, j = i.pop(), j.pop(); seen.add((i, j))
        want[k] = w1.a[i] * w2.a[j]
    if len(seen) != n1 * n2: out['sat'].append(dict(kind='coords', detail='some pair of part points is missing or repeated')); return out
    v = solve.equiv(SArray(want, 'f'), weights)
    out['unsat'] += v.exact_unsat + v.trivial; out['unknown'] += v.unknown
    if v.sat: out['sat'].append(dict(kind='weights', detail='a weight does not belong to the coordinate row it is stored with', n=[n1, d1, n2, d2]))
    return out

def _transforms():
    T = []
    for ref in (element.getsimplex(1), element.getsimplex(2), element.getsimplex(3), element.getsimplex(1) ** 2):
        for tr in ref.child_transforms: T.append(tr)
        for tr in ref.edge_transforms: pass
    fa = lambda a: ntypes.arraydata(numpy.array(a, dtype=float))
    T += [transform.Square(fa([[0., 2.], [1., 1.]]), fa([1., 0.])), transform.Square(fa([[-3.]]), fa([1.])), transform.Square(fa([[.5, 0.], [0., .25]]), fa([0., 0.]))]
    return T

def transform_case(itr):
    tr = _transforms()[itr]
    label = f'TransformPoints with {type(tr).__name__} {tr} (det {float(tr.det):+.3g})'
    out = dict(label=label, unsat=0, sat=[], unknown=0, errors=[])
    n = 3
    def run():
        with _patched():
            Pn = SymPoints('p', n, tr.fromdims)
            T = npoints.TransformPoints(Pn, tr); _fresh(T, 'weights')
            return T.weights
    paths, complete = explore(run, max_paths=4)
    P = paths[0]
    if P.tag != 'ok': out['errors'].append(f'{P.tag}: {P.value}'); return out
    weights = SArray.wrap(P.value)
    w = SArray.symbolic('pw', (n,))
    v = solve.equiv(w * abs(float(tr.det)), weights)
    out['unsat'] += v.exact_unsat + v.trivial; out['unknown'] += v.unknown
    if v.sat: out['sat'].append(dict(kind='transform-weights', detail='weights of the transformed rule are not w*|det|', itr=itr))
    return out

CONCATS = [((2, 2), ()), ((2, 3), (((0, 1), (1, 0)),)), ((3, 2, 2), (((0, 2), (1, 0), (2, 1)),)), ((2, 2, 2), (((0, 0), (1, 1)), ((1, 0), (2, 0)))), ((3, 3), (((1, 2), (0, 0)), ((0, 1), (1, 1))))]

def concat_case(ic):
    sizes, dups = CONCATS[ic]
    label = f'ConcatPoints of sizes {sizes} with duplicates {dups}'
    out = dict(label=label, unsat=0, sat=[], unknown=0, errors=[])
    def run():
        with _patched():
            parts = tuple(SymPoints(f'p{k}', n, 1) for k, n in enumerate(sizes))
            C = npoints.ConcatPoints(parts, frozenset(dups)); _fresh(C, 'coords', 'weights', 'masks')
            return C.coords, C.weights, C.npoints
    paths, complete = explore(run, max_paths=4)
    P = paths[0]
    if P.tag != 'ok': out['errors'].append(f'{P.tag}: {P.value}'); return out
    coords, weights, npts = P.value; coords, weights = SArray.wrap(coords), SArray.wrap(weights)
    ids = [r[0] for r in _row_ids(coords)]
    group = {}      # (part, point) -> representative
    for pairs in dups:
        for pr in pairs: group[tuple(pr)] = tuple(pairs[0])
    reps = {}
    for k, n in enumerate(sizes):
        for j in range(n): reps.setdefault(group.get((k, j), (k, j)), []).append((k, j))
    if npts != len(reps) or len(ids) != len(reps) or tuple(weights.shape) != (len(reps),):
        out['sat'].append(dict(kind='count', detail=f'{npts} points announced, {len(ids)} rows, {len(reps)} distinct points expected')); return out
    want = numpy.empty(len(ids), object); used = set()
    for r, name in enumerate(ids):
        try: k, j = int(name.split('c_')[0][1:]), int(name.split('_')[1])
        except Exception:
            out['sat'].append(dict(kind='coords', detail=f'row {r}: {name}')); return out
        rep = group.get((k, j), (k, j))
        if rep in used: out['sat'].append(dict(kind='coords', detail=f'point {rep} kept twice')); return out
        used.add(rep)
        tot = 0.
        for (kk, jj) in reps[rep]: tot = tot + SArray.symbolic(f'p{kk}w', (sizes[kk],)).a[jj]
        want[r] = tot
    v = solve.equiv(SArray(want, 'f'), weights)
    out['unsat'] += v.exact_unsat + v.trivial; out['unknown'] += v.unknown
    if v.sat: out['sat'].append(dict(kind='concat-weights', detail='a kept point does not carry its own weight plus those of its duplicates', ic=ic))
    return out

def cases(tier):
    C = [('tensor', a) for a in [(2, 1, 3, 1), (3, 1, 2, 1), (2, 2, 3, 1), (3, 1, 2, 2), (1, 1, 3, 2), (3, 2, 1, 1), (2, 2, 2, 2)]]
    C += [('transform', i) for i in range(len(_transforms()))]
    C += [('concat', i) for i in range(len(CONCATS))]
    return C

def run_case(c):
    kind, a = c
    return dict(tensor=lambda: tensor_case(*a), transform=lambda: transform_case(a), concat=lambda: concat_case(a))[kind]()

def replay(c, cex):
    '''real numpy: distinct concrete weights/coordinates through the real containers, compared with the definition'''
    kind, a = c
    rng = numpy.random.default_rng(0)
    mk = lambda n, d: npoints.CoordsWeightsPoints(ntypes.arraydata(rng.uniform(size=(n, d))), ntypes.arraydata(rng.uniform(.5, 1.5, size=n)))
    if kind == 'tensor':
        n1, d1, n2, d2 = a; P1, P2 = mk(n1, d1), mk(n2, d2); T = npoints.TensorPoints(P1, P2)
        for k, row in enumerate(T.coords):
            i = int(numpy.argmin(numpy.abs(P1.coords - row[:d1]).sum(1))); j = int(numpy.argmin(numpy.abs(P2.coords - row[d1:]).sum(1)))
            if not numpy.isclose(T.weights[k], P1.weights[i] * P2.weights[j]): return True, f'row {k} = (point {i}, point {j}) has weight {T.weights[k]} instead of {P1.weights[i] * P2.weights[j]}'
        return False, 'agree'
    if kind == 'transform':
        tr = _transforms()[a]; Pn = mk(3, tr.fromdims); T = npoints.TransformPoints(Pn, tr)
        if not numpy.allclose(T.weights, Pn.weights * abs(float(tr.det))): return True, f'weights {T.weights.tolist()} instead of {(Pn.weights * abs(float(tr.det))).tolist()} for {tr}'
        return False, 'agree'
    sizes, dups = CONCATS[a]; parts = tuple(mk(n, 1) for n in sizes); C = npoints.ConcatPoints(parts, frozenset(dups))
    tot = sum(p.weights.sum() for p in parts)
    if not numpy.isclose(C.weights.sum(), tot) or len(C.weights) != C.npoints or len(C.coords) != C.npoints: return True, f'total weight {C.weights.sum()} instead of {tot}, {len(C.weights)} weights for {C.npoints} points'
    return False, 'agree'
