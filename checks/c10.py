'''C10 - topology operations conserve the domain: the claimed kernel (structured index bookkeeping).

Refine/trim/union on general topologies are declined (numeric geometry, object graphs; see DESIGN).  What is decided, for
ALL sizes, offsets, moduli, element and interface indices (unbounded integers): the 1-D facts of Axis/DimAxis/IntAxis that
tensorise to "every interior face appears exactly once between its two neighbours", "the boundary is exactly the two end
faces (none if periodic)", "refinement and slicing keep faces/elements in place".'''
import sys, warnings
warnings.simplefilter('ignore')
from symx import harness
from symx.sym import STATS
from checks import axis_kernel as ak

PID = 'C10'
PROP = 'C10'

def main(argv=None, pid=PID, prop=PROP, extra=None):
    args = harness.parse_args(pid, argv)
    if args.replay:
        import json
        d = json.load(open(args.replay))['replay']
        if d.get('kind') == 'axis':
            bad = ak.concrete_check(d['obligation'], d['model'])
            print('REPRODUCED' if bad else 'not reproduced', bad); return 1 if bad else 0
        return extra.replay(d) if extra else 0
    run = harness.Run(pid, 'other', args,
        'The real transformseq.Axis/DimAxis/IntAxis methods (map, unmap, intaxis, boundaries, refined, opposite, getitem) are executed on symbolic integers i, j, mod, element/interface index; '
        'on every path z3 proves the index-arithmetic facts (stated modulo mod when mod != 0) for unbounded integers under the representation invariant of an axis.  '
        'A symbolic modulus is handled by a derived linear quotient ladder (the explorer first proves |quotient| <= 3 from the path condition).' + (extra.EXPLAIN if extra else ''))
    run.stubs = list(ak.STUBS)
    run.assumptions = ['representation invariant of an axis: i < j, and mod == 0 or (mod > 0, 0 <= i, j <= mod); periodic: mod == j - i',
                       'mathematical integers', 'only structured index bookkeeping is claimed; see MANIFEST level_note for the declined clauses']
    O = [o for o in ak.obligations() if o[3] == prop and (not args.only or args.only in o[0])]
    run.bounds = dict(obligation_families=len(O), integers='unbounded', paths_per_family='<=64', quotient_ladder='[-3,3]')
    obligations = discharged = 0
    with harness.FuncTrace() as ft:
        if O: ak.prove(*O[0][:3])
    run.functions = {n for n in ft.names if 'transformseq' in n}
    for nm, assume, fn, _ in O:
        r = ak.prove(nm, assume, fn, timeout_ms=30000 if args.tier == 'quick' else 120000)
        run.case(nm, r['proved'] > 0); run.paths += r['paths']
        obligations += r['proved'] + r['unknown'] + len(r['failed']); discharged += r['proved']
        run.queries['exact_unsat'] += r['proved']; run.queries['unknown'] += r['unknown']; run.queries['sat'] += len(r['failed'])
        run.sample(dict(obligation=nm, paths=r['paths'], exhaustive=r['exhaustive'], proved=r['proved']), limit=40)
        if r['unknown'] or r['aborted'] or not r['exhaustive']: run.unconfirmed(nm, f'{r["unknown"]} unknown, aborted {r["aborted"][:2]}, exhaustive={r["exhaustive"]}')
        if r['proved'] == 0 and not r['failed']: run.harness_error(f'{nm}: vacuous (no claim reached)')
        for label, model in r['failed']:
            bad = ak.concrete_check(nm, model)
            if bad:
                run.violation(f'axis:{nm}:{label}', f'{nm}: "{label}" fails for {model} (replayed on the real classes with these integers: {bad})', dict(kind='axis', obligation=nm, label=label, model=model))
            else:
                run.unconfirmed(nm, f'{label}: model {model} did not reproduce on concrete integers ({bad})')
    # vacuity twin: a wrong claim must be refuted
    if O:
        nm, assume, fn, _ = O[0]
        tw = ak.prove(nm, assume, fn, mutate=lambda label, c: (c & ~c) if hasattr(c, 't') else False)
        run.twin(len(tw['failed']) > 0)
    if extra: obligations, discharged = extra.run(run, args, obligations, discharged)
    return run.finish(dict(obligations=obligations, discharged=discharged, rule='case = one obligation family (real method(s) + claims); nontrivial = at least one claim proved by z3 on a reachable path'))

if __name__ == '__main__':
    sys.exit(main())
