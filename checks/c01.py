'''C01 - simplification terminates and preserves values.

For every program of the bounded family: e.simplified (real simplifier, watchdog) and e are both compiled
with _simplify=False,_optimize=False by the real code generator; the two generated scripts are executed on
the same z3-symbolic arguments and z3 decides, per output element, whether any argument value in the domain
of the original distinguishes them.  sat models are replayed on real NumPy before being reported.'''
import sys, os, random, time, warnings, numpy
warnings.simplefilter('ignore')
from symx import harness, progs, tv, solve
from symx.harness import Timeout, with_timeout
from nutils import evaluable as ev

PID = 'C01'
WATCHDOG = 20

def simplified_guarded(e):
    try:
        return 'ok', with_timeout(WATCHDOG, lambda: e.simplified)
    except Timeout:
        return 'timeout', None
    except Exception as ex:
        if 'caught in a loop' in str(ex): return 'loop', str(ex)
        return 'exc', f'{type(ex).__name__}: {ex}'

_CONFIRM = '''
import sys, resource, signal
resource.setrlimit(resource.RLIMIT_CPU, (%d, %d))
from symx import progs
e = progs.build(progs.parse(sys.argv[1]))
try:
    e.simplified
except Exception as ex:
    print('LOOP' if 'caught in a loop' in str(ex) else 'EXC', type(ex).__name__, str(ex)[:200]); sys.exit(0)
print('TERMINATES')
'''

def confirm_nontermination(p, cpu_s=45):
    '''a watchdog hit inside a loaded worker process is only a suspicion: the simplification is repeated in a fresh interpreter under a CPU-time limit
    (RLIMIT_CPU, independent of machine load).  returns (confirmed, detail)'''
    import subprocess
    try:
        r = subprocess.run([sys.executable, '-c', _CONFIRM % (cpu_s, cpu_s + 5), progs.show(p)], capture_output=True, text=True, timeout=20 * cpu_s, env=dict(os.environ))
    except subprocess.TimeoutExpired:
        return False, 'confirmation run did not finish (wall clock)'
    out = r.stdout.strip()
    if r.returncode < 0 or (r.returncode != 0 and not out): return True, f'no result after {cpu_s}s of CPU time in a fresh process (signal {-r.returncode})'
    if out.startswith('LOOP'): return True, out
    return False, out[:200]

def replay_value(p, args):
    '''real code, real numpy: returns (reproduced, detail)'''
    e = progs.build(p)
    st, es = simplified_guarded(e)
    if st != 'ok': return True, f'simplification: {st} {es}'
    try:
        r0 = tv.concrete_eval(e, args, strict=True, _simplify=False, _optimize=False)
    except Exception as ex:
        return False, f'reference raised {type(ex).__name__} (outside the domain of the original)'
    if not tv.finite(r0): return False, 'reference not finite'
    try:
        r1 = tv.concrete_eval(es, args, _simplify=False, _optimize=False)
    except Exception as ex:
        return True, f'simplified raised {type(ex).__name__}: {ex}'
    if tv.same(r0, r1): return False, 'agree'
    return True, f'original={tv.tolist(r0)} simplified={tv.tolist(r1)}'

def _term_classes(classes):
    '''identity of a termination finding: the recorded rewrite cycle is the one between an indexed (take/inflate) Diagonalize and a product or diagonal taken of it;
    further structural operations around that core (sums, extra diagonals of a product, transposes) do not make it a different finding'''
    cs = set(classes.split('+'))
    if {'diagonalize', 'index'} <= cs and cs & {'product', 'takediag'} and cs <= {'diagonalize', 'index', 'product', 'takediag', 'add', 'sum'}:
        return 'diagonalize+index+product' if 'product' in cs else 'diagonalize+index+takediag'
    return classes

def _fails_term(q):
    return simplified_guarded(progs.build(q))[0] in ('timeout', 'loop')
def _fails_any(q):
    if 'lidx' in progs.show(q) and 'loop_' not in progs.show(q): return False
    return bool(_work(q, minimize=False)['viol'])

def work(item):
    i, p = item
    if p[0] == 'random':
        rng = random.Random(p[1] * 7919 + p[2])
        p = progs.random_program(rng, rng.choice([3, 4, 5, 6]))
    return _work(p)

def _work(p, minimize=True):
    key = progs.show(p)
    res = dict(key=key, viol=[], unconfirmed=[], q={}, paths=0, status='ok', nontrivial=False, core=None)
    try:
        e = progs.build(p)
    except progs.IllTyped:
        res['status'] = 'illtyped'; return res
    st, es = simplified_guarded(e)
    if st in ('timeout', 'loop'):
        ok, detail = confirm_nontermination(p)
        if not ok:
            res['unconfirmed'].append(f'{key}: watchdog/loop in the worker not confirmed in a fresh process ({detail})'); res['status'] = 'term_unconfirmed'; return res
        res['viol'].append((f'simplification does not terminate ({st}): {key}', dict(program=key, kind='termination', detail=str(es))))
        if minimize: c = progs.core(p, _fails_term); res['core'] = 'termination:' + _term_classes(progs.op_classes(c)); res['core_program'] = progs.show(c)
        res['status'] = 'term'; return res
    if st == 'exc':
        # only a violation if the original is defined somewhere (probe with in-range concrete arguments)
        defined = False
        for variant in range(3):
            try:
                r0 = tv.concrete_eval(e, progs.default_args(progs.used_args(p), variant), _simplify=False, _optimize=False)
                defined = defined or tv.finite(r0)
            except Exception:
                pass
        if not defined:
            res['status'] = 'undefined_program'; return res
        res['viol'].append((f'simplification raised {es}: {key}', dict(program=key, kind='simplify-exception', detail=str(es))))
        res['status'] = 'simp_exc'; return res
    # static shape/dtype
    if es.dtype != e.dtype or es.ndim != e.ndim:
        res['viol'].append((f'simplified changes dtype/ndim: {key}', dict(program=key, kind='static')))
        return res
    if es is e:
        res['status'] = 'unchanged'
    names = progs.used_args(p)
    try:
        f0 = tv.sym_compile(e, _simplify=False, _optimize=False)
        f1 = tv.sym_compile(es, _simplify=False, _optimize=False)
        out = with_timeout(60, lambda: tv.compare_runs(f0, f1, names, max_paths=8, timeout_ms=10000, margin=1e-9, budget_s=20))
    except Timeout:
        res['status'] = 'harness_timeout'; return res
    res['q'] = out['q']; res['paths'] = out['paths']
    res['nontrivial'] = (out['q']['exact_unsat'] + out['q']['margin_unsat'] + out['q']['sat'] + out['q']['unknown']) > 0
    if out['unsupported']: res['status'] = 'unsupported'; res['unsupported'] = out['unsupported'][0]
    if out['ref_exc'] and not out['models']: res['status'] = 'ref_raises' if res['status'] == 'ok' else res['status']
    if out['struct_mismatch']:
        res['viol'].append((f'simplified result has different shape/kind {out["struct_mismatch"]}: {key}', dict(program=key, kind='structure', detail=str(out['struct_mismatch']))))
    cands = [(a, f'element {idx}') for a, idx in out['models']] + [(a, what) for what, a in out['other_exc']]
    for args, what in cands:
        ok, detail = replay_value(p, args)
        if ok:
            res['viol'].append((f'simplified differs from original for {key} at {tv.tolist(args)}: {detail}'[:600], dict(program=key, kind='value', arguments=tv.tolist(args), detail=detail)))
            break
    else:
        if cands: res['unconfirmed'].append(f'{key}: solver model did not reproduce ({detail})')
    if res['viol'] and minimize:
        c = progs.core(p, _fails_any); res['core'] = 'value:' + progs.skeleton(c); res['core_program'] = progs.show(c)
    return res

def programs(tier, seed):
    rng = random.Random(seed)
    out = list(progs.CORPUS) + list(progs.VARLEN) + list(progs.VARBLOCK)
    d1 = [p for p, e in progs.typed(progs.depth1())]
    out += d1
    out += list(progs.structured(2))        # targeted: structural constructor pairs over equal-length axes, multi-factor products (exhaustive at level 2)
    if tier != 'quick':
        s3 = list(progs.structured(3)); rng.shuffle(s3); out += s3[:80000]
    d2 = progs.depth2(d1)
    if tier == 'quick':
        d2 = [p for p in d2]
        rng.shuffle(d2)
        out += d2[:6000]
        nrand = 300
    else:
        d2 = list(d2); rng.shuffle(d2)
        out += d2[:150000]
        d3 = list(progs.depth3_priority(d2[:60000])); rng.shuffle(d3)
        out += d3[:40000]
        nrand = 10000
    for r in range(nrand):
        out.append(('random', seed, r))
    seen = set(); uniq = []
    for p in out:
        if p not in seen:
            seen.add(p); uniq.append(p)
    return uniq

def main(argv=None):
    args = harness.parse_args(PID, argv)
    if args.replay:
        import json
        d = json.load(open(args.replay))['replay']
        p = progs.parse(d['program'])
        if d['kind'] == 'value':
            a = {k: numpy.array(v) for k, v in d['arguments'].items()}
            ok, detail = replay_value(p, a)
        else:
            st, es = simplified_guarded(progs.build(p)); ok, detail = st != 'ok', f'{st} {es}'
        print('REPRODUCED' if ok else 'not reproduced', detail)
        return 1 if ok else 0
    run = harness.Run(PID, 'translation_validation', args,
        'Each program e of the bounded family is simplified by the real simplifier; e and e.simplified are compiled without further passes and both generated '
        'scripts are executed on z3-symbolic arguments; z3 decides per output element whether any argument value (reals for floats, mathematical integers) '
        'on which the original is defined distinguishes them.  unsat = equal for all values.')
    run.stubs = list(tv.sym_compile.__globals__['STUBS']) if 'STUBS' in tv.sym_compile.__globals__ else []
    from symx.run import STUBS, selftest_poly
    run.stubs = STUBS
    if not selftest_poly(): run.harness_error('polynomial model disagrees with nutils_poly')
    run.assumptions = ['floats modelled as reals (no NaN/Inf, no rounding); ints as mathematical integers (no int64 wrap)',
                       'transcendental functions are uninterpreted (sound for equivalence by congruence)',
                       'declared ranges of int arguments: ' + str({k: v[2] for k, v in progs.ARGS.items() if v[2]}),
                       'termination: observed under a %ds watchdog per program; no claim outside the family' % WATCHDOG]
    P = programs(args.tier, args.seed)
    if args.only: P = [p for p in P if p[0] != 'random' and args.only in progs.show(p)]
    run.bounds = dict(programs=len(P), axis_lengths='1..4', depth='exhaustive depth<=1 over the constructor table, structural constructor pairs over equal-length operands exhaustive, depth 2 %s, random depth<=6' % ('6000 sampled' if args.tier == 'quick' else '150000 sampled + 40000 depth-3 over the simplifier priority classes'),
                      max_paths=8, solver_timeout_ms=10000, watchdog_s=WATCHDOG, margin='1e-9 relative on box [-8,8] only after an exact sat')
    status = run.counters
    with harness.FuncTrace() as ft:
        for p in progs.CORPUS[:6]: work((0, p))
    run.functions = ft.names
    # vacuity twin: a deliberately wrong "simplification" must be sat
    for p in (('mul', ('arg', 'x'), ('arg', 'y')), ('sum', ('arg', 'M'), 0), ('take', ('arg', 'x'), ('arg', 'k'), 0)):
        e = progs.build(p)
        f0 = tv.sym_compile(e, _simplify=False, _optimize=False); f1 = tv.sym_compile(ev.add(e, ev.ones_like(e)), _simplify=False, _optimize=False)
        run.twin(tv.compare_runs(f0, f1, progs.used_args(p))['q']['sat'] > 0)
    for res in harness.pmap(work, list(enumerate(P)), args.jobs, chunksize=16):
        if 'harness_error' in res:
            status['worker_error'] += 1
            if status['worker_error'] <= 3: run.inconclusive.append('worker error: ' + res['harness_error'][:300])
            continue
        status[res['status']] += 1
        if res['status'] == 'illtyped': continue
        run.case(res['key'], res['nontrivial'])
        run.add_queries(res['q']); run.paths += res['paths']
        for what, rp in res['viol']: run.violation(res.get('core') or res['key'], what, dict(rp, core=res.get('core'), core_program=res.get('core_program')))
        for u in res['unconfirmed']: run.unconfirmed(res['key'], u)
        if res['status'] == 'unsupported': status['unsupported:' + res.get('unsupported', '')[:60]] += 1
        if res['nontrivial'] and res['status'] == 'ok': run.sample(dict(program=res['key'], queries=res['q']))
    programs_checked = run.cases
    return run.finish(dict(programs=programs_checked, disagreements_checked=run.queries['sat'] + len(run.violations) + len(run.known_hit)))

if __name__ == '__main__':
    sys.exit(main())
