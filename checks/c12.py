'''C12 - bases are what their type promises (partially applicable).

Every basis of a parameter grid (std / spline with continuity, knot multiplicities and periodicity / discont / legendre /
bubble / hierarchical / truncated hierarchical / masked; 1-D and 2-D, <= 9 elements) is lowered by the real code at a SYMBOLIC
local point of each element and of each interface element, compiled and run on z3 terms.  z3 decides for all points:
 (a) eval(basis) equals polyval(get_coefficients(e)) scattered to get_dofs(e) (margin 1e-9: coefficient tables are floats);
 (b) partition of unity: |sum phi - 1| <= 1e-9 for the bases that promise it;
 (c) advertised continuity: the jump of the basis (and of its first derivative for C1 splines) across every interface is <= 1e-9.
Declined: dof<->element map inversion and "exactly the non-zero functions" (finite combinatorial facts), 3-D.'''
import sys, random, warnings, numpy, z3, itertools
warnings.simplefilter('ignore')
from symx import harness, tv, solve, fn
from symx.sym import explore, ctx, Unsupported, PathAbort, lift, SReal, is_concrete
from symx.sarray import SArray
from symx.run import sym_compile, STUBS, poly_eval_model
from symx.harness import Timeout, with_timeout
from nutils import function, evaluable as ev, mesh
import treelog

PID = 'C12'
_T = {}
def topo(name):
    if name not in _T:
        # splines are smooth with respect to their knot vector: the default knot vector is uniform, so the geometries used for the
        # derivative-continuity clause are uniform (spacing 2 resp. 1/2, not 1, so that a lost scale factor is visible); the non-uniform
        # line 'line3n' is used with explicit knotvalues equal to its vertices (and for the C0 / evaluation clauses)
        if name == 'line3': _T[name] = mesh.rectilinear([numpy.array([0., 2., 4., 6.])])
        elif name == 'line3n': _T[name] = mesh.rectilinear([numpy.array([0., 1., 3., 4.])])
        elif name == 'line3p': _T[name] = mesh.rectilinear([numpy.array([0., .5, 1., 1.5])], periodic=(0,))
        elif name == 'square': _T[name] = mesh.rectilinear([numpy.array([0., 2., 4.]), numpy.array([0., .5, 1.])])
        elif name == 'squaren': _T[name] = mesh.rectilinear([numpy.array([0., 1., 3.]), numpy.array([0., 2., 3.])])
        elif name == 'tri': _T[name] = mesh.unitsquare(2, 'triangle')
        # a single element in a periodic direction is its own neighbour
        elif name == 'line1p': _T[name] = mesh.rectilinear([numpy.array([0., 2.])], periodic=(0,))
        elif name == 'sq13p': _T[name] = mesh.rectilinear([numpy.array([0., 2.]), numpy.array([0., 1., 2., 3.])], periodic=(0,))
        elif name == 'sq31p': _T[name] = mesh.rectilinear([numpy.array([0., 1., 2., 3.]), numpy.array([0., .5])], periodic=(1,))
        elif name == 'sq22pp': _T[name] = mesh.rectilinear([numpy.array([0., 1., 2.]), numpy.array([0., 1., 2.])], periodic=(0, 1))
        elif name == 'hier':
            t, g = mesh.rectilinear([numpy.array([0., 1., 2.]), numpy.array([0., 1., 2.])]); _T[name] = (t.refined_by([0]), g)
        elif name == 'hier1':
            t, g = mesh.rectilinear([numpy.array([0., 1., 2., 3.])]); _T[name] = (t.refined_by([1]), g)
    return _T[name]

# (name, topology, kwargs, partition of unity?, continuity order across interfaces (-1 = none promised))
def configs(tier):
    C = []
    for d in (1, 2, 3): C.append((f'std{d}', 'line3', dict(btype='std', degree=d), True, 0))
    for d in (0, 1, 2, 3): C.append((f'spline{d}', 'line3', dict(btype='spline', degree=d), True, d - 1))
    C.append(('spline2-c0', 'line3', dict(btype='spline', degree=2, continuity=0), True, 0))
    C.append(('spline3-c1', 'line3', dict(btype='spline', degree=3, continuity=1), True, 1))
    C.append(('spline2-mult', 'line3', dict(btype='spline', degree=2, knotmultiplicities=[numpy.array([1, 2, 1, 1])]), True, 0))
    C.append(('spline2-knotvalues', 'line3n', dict(btype='spline', degree=2, knotvalues=[numpy.array([0., 1., 3., 4.])]), True, 1))
    C.append(('spline3-knotvalues', 'line3n', dict(btype='spline', degree=3, knotvalues=[numpy.array([0., 1., 3., 4.])]), True, 1))
    C.append(('std2-nonuniform', 'line3n', dict(btype='std', degree=2), True, 0)); C.append(('spline2-nonuniform-c0', 'line3n', dict(btype='spline', degree=2), True, 0))
    C.append(('std1-2d-nonuniform', 'squaren', dict(btype='std', degree=1), True, 0))
    C.append(('spline2-periodic', 'line3p', dict(btype='spline', degree=2), True, 1))
    C.append(('std1-periodic', 'line3p', dict(btype='std', degree=1), True, 0))
    for d in (0, 1, 2): C.append((f'discont{d}', 'line3', dict(btype='discont', degree=d), True, -1))
    C.append(('legendre2', 'line3', dict(btype='legendre', degree=2), False, -1))
    C.append(('std1-2d', 'square', dict(btype='std', degree=1), True, 0)); C.append(('std2-2d', 'square', dict(btype='std', degree=2), True, 0))
    C.append(('spline2-2d', 'square', dict(btype='spline', degree=2), True, 1)); C.append(('spline12-2d', 'square', dict(btype='spline', degree=(1, 2)), True, 0))
    C.append(('tri-std1', 'tri', dict(btype='std', degree=1), True, 0)); C.append(('tri-std2', 'tri', dict(btype='std', degree=2), True, 0)); C.append(('tri-bubble', 'tri', dict(btype='bubble'), False, 0))
    C.append(('tri-discont1', 'tri', dict(btype='discont', degree=1), True, -1))
    C.append(('h-std1', 'hier', dict(btype='h-std', degree=1), False, 0)); C.append(('th-std1', 'hier', dict(btype='th-std', degree=1), True, 0))
    C.append(('h-spline2-1d', 'hier1', dict(btype='h-spline', degree=2), False, 1)); C.append(('th-spline2-1d', 'hier1', dict(btype='th-spline', degree=2), True, 1))
    # lagrange / bernstein bases are built by the generic dof-merging route (not the structured one), also across periodic self-interfaces
    for bt in ('lagrange', 'bernstein'):
        for d in (1, 2):
            C.append((f'{bt}{d}', 'line3', dict(btype=bt, degree=d), True, 0)); C.append((f'{bt}{d}-periodic', 'line3p', dict(btype=bt, degree=d), True, 0))
            C.append((f'{bt}{d}-1elem-periodic', 'line1p', dict(btype=bt, degree=d), True, 0)); C.append((f'{bt}{d}-1x3-periodic', 'sq13p', dict(btype=bt, degree=d), True, 0))
        C.append((f'{bt}2-3x1-periodic', 'sq31p', dict(btype=bt, degree=2), True, 0)); C.append((f'{bt}1-2d', 'square', dict(btype=bt, degree=1), True, 0)); C.append((f'{bt}2-tri', 'tri', dict(btype=bt, degree=2), True, 0))
    C.append(('std1-1elem-periodic', 'line1p', dict(btype='std', degree=1), True, 0)); C.append(('spline2-1x3-periodic', 'sq13p', dict(btype='spline', degree=2), True, 1)); C.append(('std1-2x2-biperiodic', 'sq22pp', dict(btype='std', degree=1), True, 0))
    # partition bases: the parent basis made discontinuous at the interfaces between parts (part numberings in element order, reversed, interleaved, gapped)
    for tag, parts in (('fwd', [0, 0, 1]), ('rev', [1, 1, 0]), ('mix', [1, 0, 1]), ('gap', [3, 0, 3])):
        C.append((f'partition-std1-{tag}', 'line3', dict(btype='std', degree=1, _parts=parts), True, -1)); C.append((f'partition-spline2-{tag}', 'line3', dict(btype='spline', degree=2, _parts=parts), True, -1))
    C.append(('partition-std1-2d-rev', 'square', dict(btype='std', degree=1, _parts=[1, 1, 0, 0]), True, -1)); C.append(('partition-std1-2d-mix', 'square', dict(btype='std', degree=1, _parts=[1, 0, 1, 0]), True, -1))
    C.append(('masked-std1', 'line3', dict(btype='std', degree=1, _mask=[True, False, True, True]), False, 0))
    if tier == 'thorough':
        C.append(('th-spline2-2d', 'hier', dict(btype='th-spline', degree=2), True, 1)); C.append(('std3-2d', 'square', dict(btype='std', degree=3), True, 0))
        C.append(('spline3-2d', 'square', dict(btype='spline', degree=3), True, 2))
    return C

def make_basis(cfg):
    name, tname, kw, pou, cont = cfg
    t, g = topo(tname)
    kw = dict(kw); btype = kw.pop('btype'); mask = kw.pop('_mask', None); parts = kw.pop('_parts', None)
    b = t.basis(btype, **kw)
    if mask is not None: b = b[numpy.array(mask)]
    if parts is not None: b = b.discontinuous_at_partition_interfaces(numpy.array(parts))
    return t, g, b

def partition_facts(cfg):
    '''auxiliary, concrete (finite facts of one configuration): the renumbering (part, parent dof) -> dof of a partition basis is a bijection that keeps the coefficients'''
    name, tname, kw, pou, cont = cfg
    parts = kw.get('_parts')
    if parts is None: return []
    t, g, b = make_basis(cfg)
    kw2 = dict(kw); kw2.pop('_parts'); btype = kw2.pop('btype'); parent = t.basis(btype, **kw2)
    bad, seen = [], {}
    for e in range(len(t)):
        dn, dp = list(b.get_dofs(e)), list(parent.get_dofs(e))
        if len(dn) != len(dp) or not numpy.allclose(numpy.asarray(b.get_coefficients(e)), numpy.asarray(parent.get_coefficients(e))): bad.append(f'element {e}: dofs/coefficients do not match the parent basis'); continue
        for jn, jp in zip(dn, dp):
            key = (int(parts[e]), int(jp))
            if seen.setdefault(int(jn), key) != key: bad.append(f'dof {jn} is shared by (part, parent dof) {seen[int(jn)]} and {key}')
    inv = {}
    for jn, key in seen.items():
        if inv.setdefault(key, jn) != jn: bad.append(f'(part, parent dof) {key} is split over dofs {inv[key]} and {jn}')
    if len(b) != len(seen): bad.append(f'{len(b)} dofs announced, {len(seen)} used')
    return bad

def lower_at(f, t, ielem, opposite=False):
    space, = t.spaces
    coords = ev.Argument('xi', (ev.constant(t.ndims),), float)
    args = function.LowerArgs.for_space(space, (t.transforms, t.opposites), ev.constant(ielem), coords)
    return function.Array.cast(f).lower(args)

def in_reference(t, ielem, xi):
    '''z3 constraints: xi inside the reference element'''
    ref = t.references[ielem]
    cons = [z3.And(x.t >= 0, x.t <= 1) for x in xi.a]
    if 'Triangle' in type(ref).__name__ or (ref.ndims == 2 and ref.nverts == 3): cons.append(xi.a[0].t + xi.a[1].t <= 1)
    return cons

def case(item):
    idx, cfg, tier = item
    name, tname, kw, pou, cont = cfg
    res = dict(key=f'{name} on {tname}', viol=[], unconfirmed=[], q=dict(exact_unsat=0, margin_unsat=0, sat=0, unknown=0, trivial=0), status='ok', nontrivial=False, cfg=idx)
    with treelog.set(treelog.NullLog()):
        try:
            t, g, basis = make_basis(cfg)
        except Exception as ex:
            res['status'] = f'build:{type(ex).__name__}:{str(ex)[:60]}'; return res
        ndofs = len(basis)
        try:
            for b_ in partition_facts(cfg): res['viol'].append((f'{res["key"]}: partition basis: {b_}', dict(kind='partition', element=None)))
        except Exception as ex:
            res['viol'].append((f'{res["key"]}: partition basis facts raised {type(ex).__name__}: {ex}'[:300], dict(kind='partition', element=None)))
        elems = list(range(len(t))) if len(t) <= 6 else list(range(0, len(t), max(1, len(t) // 6)))
        for ielem in elems:
            try:
                fb = with_timeout(120, lambda: sym_compile(lower_at(basis, t, ielem)))
            except Exception as ex:
                res['viol'].append((f'{res["key"]}: lowering on element {ielem} raised {type(ex).__name__}: {ex}'[:300], dict(kind='lower', element=ielem))); continue
            dofs = numpy.asarray(basis.get_dofs(ielem)); coeffs = numpy.asarray(basis.get_coefficients(ielem))
            def run():
                xi = SArray.symbolic('xi', (t.ndims,))
                got = SArray.wrap(fb(dict(xi=xi)))
                ref = numpy.zeros(ndofs, object); ref.fill(0.)
                for k, d in enumerate(dofs):
                    ref[d] = ref[d] + poly_eval_model(list(coeffs[k]), list(xi.a))
                return SArray(ref, 'f'), got, xi
            try:
                paths, _ = with_timeout(120, lambda: explore(run, max_paths=4, timeout_ms=10000))
            except Timeout:
                res['status'] = 'timeout'; continue
            P = paths[0]
            if P.tag != 'ok':
                res['status'] = P.tag; res['note'] = str(P.value)[:100]; continue
            ref, got, xi = P.value
            if tuple(got.shape) != (ndofs,):
                res['viol'].append((f'{res["key"]}: basis evaluates to shape {got.shape} on element {ielem}, expected ({ndofs},)', dict(kind='shape', element=ielem))); continue
            dom = in_reference(t, ielem, xi)
            v = solve.equiv(ref, got, pc=list(P.pc) + dom, side=P.side, timeout_ms=10000, margin=1e-9, box=2, budget_s=60)
            for k, n in v.counts().items(): res['q'][k] += n
            for j, m in v.models[:1]:
                pt = [float(solve.model_value(m, x.t)) for x in xi.a]
                ok, detail = replay_eval(cfg, ielem, pt)
                if ok: res['viol'].append((f'{res["key"]}: element {ielem}: evaluation differs from the coefficient table at xi={pt}: {detail}'[:500], dict(kind='eval', element=ielem, point=pt)))
                else: res['unconfirmed'].append(f'{res["key"]} element {ielem}: model did not reproduce ({detail})')
            if pou:
                tot = numpy.sum(got)
                one = SArray.wrap(numpy.array(1.))
                v = solve.equiv(one, tot, pc=list(P.pc) + dom, side=P.side, timeout_ms=10000, margin=1e-9, box=2, exact_first=False, budget_s=30)
                for k, n in v.counts().items(): res['q'][k] += n
                for j, m in v.models[:1]:
                    pt = [float(solve.model_value(m, x.t)) for x in xi.a]
                    ok, detail = replay_pou(cfg, ielem, pt)
                    if ok: res['viol'].append((f'{res["key"]}: partition of unity fails on element {ielem} at xi={pt}: {detail}', dict(kind='pou', element=ielem, point=pt)))
                    else: res['unconfirmed'].append(f'{res["key"]} pou element {ielem}: model did not reproduce ({detail})')
        # continuity across interfaces
        if cont >= 0 and t.ndims >= 1:
            try:
                it = t.interfaces
                ielems = list(range(len(it))) if len(it) <= 6 else list(range(0, len(it), max(1, len(it) // 6)))
            except Exception as ex:
                ielems = []; res['status'] = f'interfaces:{type(ex).__name__}'
            funcs = [('value', function.jump(basis))]
            if cont >= 1: funcs.append(('first derivative', function.jump(function.grad(basis, g))))
            for label, jf in funcs:
                for ie in ielems:
                    try:
                        fj = with_timeout(120, lambda: sym_compile(lower_at(jf, it, ie)))
                    except Exception as ex:
                        res['viol'].append((f'{res["key"]}: lowering the jump on interface {ie} raised {type(ex).__name__}: {ex}'[:300], dict(kind='lower-jump', element=ie))); continue
                    def runj():
                        xi = SArray.symbolic('xi', (it.ndims,)) if it.ndims else SArray.wrap(numpy.zeros(0))
                        return SArray.wrap(fj(dict(xi=xi))), xi
                    try:
                        paths, _ = with_timeout(120, lambda: explore(runj, max_paths=4, timeout_ms=10000))
                    except Timeout:
                        res['status'] = 'timeout'; continue
                    P = paths[0]
                    if P.tag != 'ok': res['status'] = P.tag; res['note'] = str(P.value)[:100]; continue
                    jv, xi = P.value
                    zero = SArray.wrap(numpy.zeros(jv.shape))
                    dom = [z3.And(x.t >= 0, x.t <= 1) for x in xi.a if not is_concrete(x)]
                    v = solve.equiv(zero, jv, pc=list(P.pc) + dom, side=P.side, timeout_ms=10000, margin=1e-9, box=2, exact_first=False, budget_s=60)
                    for k, n in v.counts().items(): res['q'][k] += n
                    for j, m in v.models[:1]:
                        pt = [float(solve.model_value(m, x.t)) for x in xi.a if not is_concrete(x)]
                        ok, detail = replay_jump(cfg, label, ie, pt)
                        if ok: res['viol'].append((f'{res["key"]}: {label} of the basis jumps across interface {ie} at {pt}: {detail}'[:400], dict(kind='jump', label=label, element=ie, point=pt)))
                        else: res['unconfirmed'].append(f'{res["key"]} jump {label} interface {ie}: model did not reproduce ({detail})')
    res['nontrivial'] = res['q']['exact_unsat'] + res['q']['margin_unsat'] + res['q']['sat'] > 0
    return res

def replay_eval(cfg, ielem, pt):
    import nutils_poly
    with treelog.set(treelog.NullLog()):
        t, g, basis = make_basis(cfg)
        got = ev.compile(lower_at(basis, t, ielem))(dict(xi=numpy.array(pt)))
        ref = numpy.zeros(len(basis)); dofs = basis.get_dofs(ielem); coeffs = basis.get_coefficients(ielem)
        numpy.add.at(ref, dofs, nutils_poly.eval_outer(numpy.asarray(coeffs, dtype=float), numpy.array(pt)[None])[0] if len(dofs) else 0.)
    return (not numpy.allclose(got, ref, atol=1e-9)), f'basis {got.tolist()} vs table {ref.tolist()}'
def replay_pou(cfg, ielem, pt):
    with treelog.set(treelog.NullLog()):
        t, g, basis = make_basis(cfg); got = ev.compile(lower_at(basis, t, ielem))(dict(xi=numpy.array(pt)))
    return abs(got.sum() - 1) > 1e-9, f'sum = {got.sum()!r}'
def replay_jump(cfg, label, ie, pt):
    with treelog.set(treelog.NullLog()):
        t, g, basis = make_basis(cfg); it = t.interfaces
        jf = function.jump(basis) if label == 'value' else function.jump(function.grad(basis, g))
        got = ev.compile(lower_at(jf, it, ie))(dict(xi=numpy.array(pt)))
    return float(numpy.abs(got).max(initial=0.)) > 1e-9, f'max |jump| = {float(numpy.abs(got).max(initial=0.))!r}'

def main(argv=None):
    args = harness.parse_args(PID, argv)
    C = configs(args.tier)
    if args.replay:
        import json
        d = json.load(open(args.replay))['replay']
        cfg = configs('thorough')[d['cfg']] if d.get('cfg') is not None else None
        if d['kind'] == 'partition': bad = partition_facts(cfg); ok, detail = bool(bad), str(bad)
        elif d['kind'] == 'eval': ok, detail = replay_eval(cfg, d['element'], d['point'])
        elif d['kind'] == 'pou': ok, detail = replay_pou(cfg, d['element'], d['point'])
        elif d['kind'] == 'jump': ok, detail = replay_jump(cfg, d['label'], d['element'], d['point'])
        else:
            r = case((d['cfg'], cfg, 'quick')); ok, detail = bool(r['viol']), str(r['viol'][:1])
        print('REPRODUCED' if ok else 'not reproduced', detail); return 1 if ok else 0
    run = harness.Run(PID, 'translation_validation', args,
        'Each basis is lowered by the real code at a symbolic local point of every element (and interface element), compiled and run on z3 terms.  z3 decides for all points of the reference element: evaluation equals the polynomial '
        'given by get_coefficients(e) scattered to get_dofs(e); partition-of-unity bases sum to one; the jump of the basis (and of its gradient for C1 bases) across every interface vanishes - each up to 1e-9 (coefficient tables are binary64).')
    run.stubs = STUBS
    run.assumptions = ['DECLINED: dof->elements / elements->dofs mutual inverses and "exactly the non-zero functions" (finite combinatorial facts, nothing quantified)', '3-D bases and multipatch/trimmed topologies are outside the bound',
                       'nutils_poly is a modelled stub (validated against the extension at start-up)', 'margins: 1e-9 on the reference element']
    names = {c[0] for c in C}
    items = [(i, c, args.tier) for i, c in enumerate(configs('thorough')) if c[0] in names]
    if args.only: items = [it for it in items if args.only in it[1][0]]
    run.bounds = dict(bases=len(items), elements_per_topology='<= 6', interface_elements='<= 6', dimensions='1-2', degrees='0-3')
    from symx.run import selftest_poly
    if not selftest_poly(): run.harness_error('polynomial model disagrees with nutils_poly')
    with harness.FuncTrace() as ft:
        case(items[0])
    run.functions = {n for n in ft.names if 'function' in n or 'topology' in n or 'Basis' in n}
    # vacuity twin: a basis compared with a shifted coefficient table must be refuted
    t, g, basis = make_basis(C[0])
    with treelog.set(treelog.NullLog()): fb = sym_compile(lower_at(basis, t, 0))
    def tw():
        xi = SArray.symbolic('xi', (1,)); return SArray.wrap(fb(dict(xi=xi))), xi
    paths, _ = explore(tw); got, xi = paths[0].value
    run.twin(solve.equiv(SArray.wrap(numpy.zeros(got.shape)), got, pc=[xi.a[0].t >= 0, xi.a[0].t <= 1], margin=1e-9, box=2).sat > 0)
    for res in harness.pmap(case, items, args.jobs, chunksize=1):
        if 'harness_error' in res:
            run.counters['worker_error'] += 1
            if run.counters['worker_error'] <= 5: run.inconclusive.append('worker error: ' + res['harness_error'][:600])
            continue
        run.counters[res['status']] += 1
        run.case(res['key'], res['nontrivial']); run.add_queries(res['q'])
        if res['status'] != 'ok': run.unconfirmed(res['key'], res['status'] + ' ' + res.get('note', ''))
        for what, rp in res['viol']: run.violation(f'{res["key"]}:{rp["kind"]}:{rp.get("element")}', what, dict(rp, cfg=res['cfg']))
        for u in res['unconfirmed']: run.unconfirmed(res['key'], u)
        if res['nontrivial']: run.sample(dict(basis=res['key'], queries=res['q']), limit=12)
    return run.finish(dict(programs=run.cases, disagreements_checked=run.queries['sat'] + len(run.violations)))

if __name__ == '__main__':
    sys.exit(main())
