'''C07 - function arrays follow NumPy semantics at every point.

Operands are per-point symbolic leaves (PointArg); a NumPy call on them goes through the real __array_ufunc__ /
__array_function__ / __getitem__ dispatch of nutils.function, is lowered by the real lowering protocol with
points_shape in {(), (2,), (2,2)}, compiled by the real generator and run on z3 terms.  The oracle is the SAME NumPy
function applied to the operands' symbolic values point by point (NumPy's own Python-level semantics dispatched onto
the SArray model, which is conformance-tested against real NumPy).  z3 decides equality per element for all values;
shape and kind are compared with real NumPy on concrete dummies.  The operation table is read from
function.HANDLED_FUNCTIONS at run time: an entry without call signatures is reported as uncovered.'''
import sys, random, warnings, numpy, z3, itertools, operator
warnings.simplefilter('ignore')
from symx import harness, tv, solve, fn
from symx.sym import explore, ctx, Unsupported, PathAbort, Sym
from symx.sarray import SArray
from symx.run import sym_compile, STUBS
from symx.harness import Timeout, with_timeout
from nutils import function, evaluable as ev
import treelog

PID = 'C07'
SPEC = {
    'a': ((2, 3), float, None), 'b': ((3,), float, None), 'c': ((2, 1), float, None), 'd': ((2, 3), float, None), 's': ((), float, None),
    'M': ((3, 3), float, None), 'Q': ((2, 2), float, None), 'v': ((3,), float, None), 'u': ((2,), float, None), 'e': ((1, 3), float, None), 'T': ((2, 1, 3), float, None),
    'i': ((3,), int, (0, 2)), 'j': ((2, 3), int, (-3, 3)), 'n': ((), int, (0, 1)), 'k': ((2,), int, (0, 2)), 'r': ((3,), int, (1, 4)),
    'm': ((2, 3), bool, None), 'q': ((3,), bool, None), 'z': ((3,), complex, None), 'w': ((2, 3), complex, None),
    # equal-length axes: an axis mix-up is silent (no shape error) only then
    'F': ((2, 2, 2, 2), float, None), 'K': ((2, 2, 2), float, None), 'h': ((2,), int, (0, 1)),
}
class O: pass

np = numpy
UNARY_F = ['positive', 'negative', 'reciprocal', 'sqrt', 'square', 'absolute', 'sign', 'sin', 'cos', 'tan', 'arcsin', 'arccos', 'arctan', 'cosh', 'sinh', 'tanh', 'arctanh', 'exp', 'log', 'log2', 'log10', 'conjugate', 'real', 'imag']
CASES = {}
def case(fname, *lams):
    CASES.setdefault(fname, []).extend(lams)
for _f in UNARY_F:
    g = getattr(np, _f)
    case(_f, (lambda g: lambda o: g(o.a))(g), (lambda g: lambda o: g(o.s))(g))
    if _f in ('positive', 'negative', 'square', 'absolute', 'sign', 'conjugate', 'real', 'imag'):
        case(_f, (lambda g: lambda o: g(o.j))(g))
    if _f in ('negative', 'square', 'absolute', 'conjugate', 'real', 'imag', 'reciprocal', 'exp', 'sin', 'cos'):
        case(_f, (lambda g: lambda o: g(o.z))(g))
for _f in ('add', 'subtract', 'multiply', 'divide', 'power', 'hypot', 'arctan2', 'minimum', 'maximum', 'greater', 'less', 'equal'):
    g = getattr(np, _f)
    case(_f, (lambda g: lambda o: g(o.a, o.b))(g), (lambda g: lambda o: g(o.a, o.c))(g), (lambda g: lambda o: g(o.s, o.d))(g), (lambda g: lambda o: g(o.a, 2.))(g), (lambda g: lambda o: g(o.e, o.c))(g), (lambda g: lambda o: g(o.T, o.a))(g))
    if _f in ('add', 'subtract', 'multiply', 'minimum', 'maximum', 'greater', 'less', 'equal', 'power'):
        case(_f, (lambda g: lambda o: g(o.j, o.i))(g) if _f != 'power' else (lambda g: lambda o: g(o.j, 3))(g), (lambda g: lambda o: g(o.j, 2))(g))
    if _f in ('add', 'subtract', 'multiply', 'divide', 'equal'):
        case(_f, (lambda g: lambda o: g(o.w, o.z))(g), (lambda g: lambda o: g(o.a, o.z))(g), (lambda g: lambda o: g(o.j, o.b))(g))
    if _f in ('add', 'multiply', 'equal', 'greater', 'minimum'):
        case(_f, (lambda g: lambda o: g(o.m, o.q))(g) if _f in ('add', 'multiply', 'equal') else (lambda g: lambda o: g(o.j, o.b))(g), (lambda g: lambda o: g(o.m, o.j))(g) if _f in ('add', 'multiply') else (lambda g: lambda o: g(o.a, 1))(g))
for _f in ('floor_divide', 'remainder', 'divmod'):
    g = getattr(np, _f)
    case(_f, (lambda g: lambda o: g(o.j, o.r))(g), (lambda g: lambda o: g(o.a, o.b))(g) if _f != 'divmod' else (lambda g: lambda o: g(o.j, 2))(g), (lambda g: lambda o: g(o.j, -2))(g))
for _f in ('bitwise_and', 'logical_and', 'bitwise_or', 'logical_or'):
    g = getattr(np, _f); case(_f, (lambda g: lambda o: g(o.m, o.q))(g), (lambda g: lambda o: g(o.m, True))(g))
case('invert', lambda o: np.invert(o.m)); case('logical_not', lambda o: np.logical_not(o.m), lambda o: np.logical_not(o.q))
case('shape', lambda o: np.array(np.shape(o.a))); case('ndim', lambda o: np.array(np.ndim(o.T))); case('size', lambda o: np.array(np.size(o.a)))
case('matmul', lambda o: o.a @ o.b, lambda o: o.a @ o.M, lambda o: o.b @ o.M, lambda o: np.matmul(o.Q, o.a), lambda o: o.b @ o.v, lambda o: o.w @ o.z, lambda o: o.T @ o.M)
case('all', lambda o: np.all(o.m), lambda o: np.all(o.m, axis=0), lambda o: np.all(o.m, axis=-1))
case('any', lambda o: np.any(o.m), lambda o: np.any(o.m, axis=1), lambda o: np.any(o.q))
case('sum', lambda o: np.sum(o.a), lambda o: np.sum(o.a, axis=0), lambda o: np.sum(o.a, axis=-1), lambda o: np.sum(o.T, axis=(0, 2)), lambda o: np.sum(o.j, axis=1), lambda o: np.sum(o.m, axis=0), lambda o: o.a.sum(-1), lambda o: np.sum(o.w, axis=0))
case('prod', lambda o: np.prod(o.a, axis=0), lambda o: np.prod(o.a, axis=-1), lambda o: np.prod(o.j, axis=1), lambda o: np.prod(o.m, axis=1))
case('vdot', lambda o: np.vdot(o.b, o.v), lambda o: np.vdot(o.z, o.z), lambda o: np.vdot(o.a, o.d))
case('dot', lambda o: np.dot(o.b, o.v), lambda o: np.dot(o.a, o.b), lambda o: np.dot(o.a, o.M), lambda o: np.dot(o.s, o.a), lambda o: np.dot(o.T, o.M))
case('reshape', lambda o: np.reshape(o.a, (3, 2)), lambda o: np.reshape(o.a, (6,)), lambda o: np.reshape(o.a, (-1, 2)), lambda o: np.reshape(o.T, (2, 3)), lambda o: np.reshape(o.a, (1, 2, 3)), lambda o: np.reshape(o.b, (3, 1, 1)))
case('ravel', lambda o: np.ravel(o.a), lambda o: np.ravel(o.T), lambda o: np.ravel(o.s))
case('trace', lambda o: np.trace(o.M), lambda o: np.trace(o.Q), lambda o: np.trace(o.a[:, :2]), lambda o: np.trace(o.M, axis1=1, axis2=0))
case('transpose', lambda o: np.transpose(o.a), lambda o: np.transpose(o.T, (2, 0, 1)), lambda o: o.T.transpose((1, 2, 0)), lambda o: o.a.T, lambda o: np.transpose(o.T, (0, -1, 1)))
case('repeat', lambda o: np.repeat(o.c, 3, axis=1), lambda o: np.repeat(o.e, 2, axis=0), lambda o: np.repeat(o.T, 2, axis=1))
case('swapaxes', lambda o: np.swapaxes(o.T, 0, 2), lambda o: np.swapaxes(o.a, 0, -1), lambda o: np.swapaxes(o.T, 1, 1))
case('take', lambda o: np.take(o.b, o.i), lambda o: np.take(o.a, o.k, axis=1), lambda o: np.take(o.a, [2, 0], axis=1), lambda o: np.take(o.a, -1, axis=1), lambda o: np.take(o.a, o.n, axis=0), lambda o: np.take(o.M, [[0, 1], [2, 2]], axis=0), lambda o: np.take(o.a, [1, -1, 0], axis=-1))
case('compress', lambda o: np.compress([True, False, True], o.b), lambda o: np.compress([False, True], o.a, axis=0), lambda o: np.compress([True, False, True], o.a, axis=1))
case('concatenate', lambda o: np.concatenate([o.b, o.v]), lambda o: np.concatenate([o.a, o.d], axis=1), lambda o: np.concatenate([o.a, o.e], axis=0), lambda o: np.concatenate([o.a, o.a * o.c], axis=-1), lambda o: np.concatenate([o.i, o.k]), lambda o: np.concatenate([o.b, o.i]))
case('stack', lambda o: np.stack([o.b, o.v]), lambda o: np.stack([o.a, o.d], axis=1), lambda o: np.stack([o.a, o.d], axis=-1), lambda o: np.stack([o.a[0], o.b, o.a[1] * 2.]), lambda o: np.stack([o.m, o.m]), lambda o: np.stack([o.b, o.i], axis=1))
case('broadcast_to', lambda o: np.broadcast_to(o.b, (2, 3)), lambda o: np.broadcast_to(o.c, (2, 3)), lambda o: np.broadcast_to(o.s, (2,)), lambda o: np.broadcast_to(o.e, (2, 2, 3)))
case('searchsorted', lambda o: np.searchsorted([0., 1., 2.5], o.b), lambda o: np.searchsorted([0., 1., 2.5], o.a, side='right'), lambda o: np.searchsorted([1, 3, 3, 7], o.j), lambda o: np.searchsorted([3., 1., 2.], o.s, sorter=[1, 2, 0]))
case('interp', lambda o: np.interp(o.b, [0., 1., 3.], [1., -1., 2.]), lambda o: np.interp(o.a, [0., 2.], [0., 4.], left=-1., right=5.), lambda o: np.interp(o.s, [-1., 0., .5, 2.], [0., 0., 1., 1.]))
case('choose', lambda o: np.choose(o.i, [o.b, o.v, -o.b]), lambda o: np.choose(o.n, [o.a, o.d]), lambda o: np.choose(o.q.astype(int), [o.b, 0.]))
case('norm', lambda o: np.linalg.norm(o.b), lambda o: np.linalg.norm(o.a, axis=1), lambda o: np.linalg.norm(o.a, axis=0), lambda o: np.linalg.norm(o.z))
case('det', lambda o: np.linalg.det(o.Q), lambda o: np.linalg.det(o.M), lambda o: np.linalg.det(o.Q * o.s))
case('inv', lambda o: np.linalg.inv(o.Q), lambda o: np.linalg.inv(o.M))
case('diagonal', lambda o: np.diagonal(o.M), lambda o: np.diagonal(o.Q), lambda o: np.diagonal(o.T[:, :, :2], axis1=0, axis2=2), lambda o: np.diagonal(o.M, axis1=1, axis2=0))
case('diagonal', lambda o: np.diagonal(o.M, offset=1), lambda o: np.diagonal(o.M, offset=-1), lambda o: np.diagonal(o.M, offset=1, axis1=1, axis2=0),
     lambda o: np.diagonal(o.K, offset=1, axis1=2, axis2=1), lambda o: np.diagonal(o.K, offset=-1, axis1=2, axis2=0), lambda o: np.diagonal(o.F, offset=1, axis1=3, axis2=1))
case('trace', lambda o: np.trace(o.M, offset=1), lambda o: np.trace(o.M, offset=-2), lambda o: np.trace(o.M, offset=1, axis1=1, axis2=0), lambda o: np.trace(o.K, offset=-1, axis1=2, axis2=1))     # non-square operands: nutils rejects diagonals of unequal axes when the array is built (a documented limitation, not a silent deviation)
case('remainder', lambda o: (o.n * 0 + np.arange(4)) % np.array([5, 4, 2, 3]), lambda o: np.remainder(o.n * 0 + np.arange(4), np.array([5, 4, 2, 3]) + o.n * 0), lambda o: (o.n + np.arange(4)) % np.array([5, 4, 2, 3]), lambda o: o.i % np.array([2, 3, 7]), lambda o: (o.i + 1) % np.array([5, 2, 3]), lambda o: np.arange(3) % (o.i + 1))
case('floor_divide', lambda o: (o.n * 0 + np.arange(4)) // np.array([5, 4, 2, 3]), lambda o: o.i // np.array([2, 3, 7]))
case('einsum', lambda o: np.einsum('ij,j->i', o.a, o.b), lambda o: np.einsum('ij->ji', o.a), lambda o: np.einsum('ii', o.M), lambda o: np.einsum('ij,ij->', o.a, o.d), lambda o: np.einsum('i,j->ij', o.u, o.b), lambda o: np.einsum('ijk,kl->ilj', o.T, o.M), lambda o: np.einsum('ii->i', o.M), lambda o: np.einsum('ij,jk,kl->il', o.Q, o.a, o.M))
case('cross', lambda o: np.cross(o.b, o.v), lambda o: np.cross(o.a, o.b), lambda o: np.cross(o.b[::-1], o.v))
case('sinc', )   # no symbolic model of sinc(x, n): declined
case('eig', ); case('eigh', )   # eigen-decompositions have no exact symbolic semantics here: declined
# indexing (dispatched through Array.__getitem__, not part of HANDLED_FUNCTIONS)
case('__getitem__', lambda o: o.a[1], lambda o: o.a[-1], lambda o: o.a[:, 1:], lambda o: o.a[::-1, ::2], lambda o: o.a[..., 0], lambda o: o.a[np.newaxis, :, np.newaxis, 1], lambda o: o.T[1, ..., -1],
     lambda o: o.a[:, [2, 0]], lambda o: o.b[o.i], lambda o: o.a[o.n], lambda o: o.a[:, o.k], lambda o: o.a[1, -2:], lambda o: o.T[:, 0][::-1, 1:3], lambda o: o.a[::-1, 1:][..., np.newaxis, 0],
     lambda o: o.M[1:, :-1][0], lambda o: o.a[:, -3:3:2], lambda o: o.T[-1, 0, -1],
     # slice bounds outside the axis are clipped by NumPy; an empty range has length zero
     lambda o: o.b[-10:], lambda o: o.a[:, :10], lambda o: o.b[2:1], lambda o: o.a[:, -10:2], lambda o: o.b[1:100], lambda o: o.b[10:], lambda o: o.a[:-10], lambda o: o.M[5:, ::-1], lambda o: o.b[-100:100:2])
case('operators', lambda o: o.a + o.b * o.c, lambda o: -o.a / (o.d * o.d + 1.), lambda o: o.j // o.r, lambda o: o.j % o.r, lambda o: o.a ** 2, lambda o: 2. ** o.n, lambda o: abs(o.j) - o.i, lambda o: (o.a > o.d) & ~o.m, lambda o: (o.a < o.b) | (o.j == 0),
     lambda o: o.a.astype(complex) * 1j if False else o.j.astype(float) / 2)
# compositions (depth 2)
COMPOSE = [lambda o: np.sum(o.a * o.b, axis=-1), lambda o: np.stack([o.a[0], o.b, o.a[1] * 2.]).T @ o.v, lambda o: np.concatenate([o.a, o.a * o.c], axis=1)[:, ::2], lambda o: np.maximum(np.abs(o.a), o.b).sum(0),
           lambda o: np.take(np.transpose(o.T, (2, 0, 1)), o.k, axis=0)[..., 0], lambda o: np.einsum('ij,j->i', o.a[:, ::-1], np.choose(o.i, [o.b, o.v, o.b * 0])), lambda o: np.linalg.det(o.Q @ o.Q.T + np.diag([1., 1.]) if False else o.Q @ np.transpose(o.Q)),
           lambda o: np.where(o.a > 0, o.a, -o.d) if False else np.sign(o.a) * o.b, lambda o: (o.a @ o.M)[..., np.newaxis] * o.b, lambda o: np.reshape(np.stack([o.a, o.d]), (4, 3))[1:3].sum(0), lambda o: np.diagonal(o.M[::-1]) + np.trace(o.M),
           lambda o: np.broadcast_to(o.c, (2, 3)) * o.a[::-1], lambda o: np.prod(o.a[:, :2], axis=1) / (1. + np.square(o.u)), lambda o: np.searchsorted([0., 1.], o.b)[o.i], lambda o: np.interp(o.b * 2., [0., 1., 3.], [1., -1., 2.]) + o.v]
COMPOSE += [lambda o: np.einsum('iijj->ij', np.take(o.F, o.h, 3)), lambda o: np.einsum('ijij->ij', np.take(o.F, [1, 0], 0)), lambda o: np.trace(np.diagonal(np.take(o.F, o.h, 1), axis1=0, axis2=1)),
            lambda o: np.diagonal(np.diagonal(o.F * np.transpose(o.F), axis1=0, axis2=2), axis1=0, axis2=1), lambda o: np.diagonal(np.prod(o.F, 2)), lambda o: np.diagonal(np.sum(o.K[:, np.newaxis] * o.F, 3), axis1=1, axis2=2),
            lambda o: np.diagonal(np.reshape(o.F, (4, 4))), lambda o: np.einsum('iji->ji', o.K * np.transpose(o.K, (2, 1, 0))), lambda o: np.diagonal(np.choose(o.h, [o.K, -o.K]), axis1=0, axis2=1),
            lambda o: np.transpose(np.take(o.K, o.h, 1), (2, 0, 1))[::-1], lambda o: np.einsum('ijk,kl->lij', o.K, o.Q), lambda o: np.sum(np.take(o.F, o.h, 2) * o.K[..., np.newaxis], axis=(0, 3))]
BAD = [lambda o: o.a + o.u, lambda o: np.matmul(o.a, o.u), lambda o: np.concatenate([o.a, o.b], axis=0), lambda o: np.stack([o.a, o.b]), lambda o: np.reshape(o.a, (4, 2)), lambda o: np.einsum('ij,j->i', o.a, o.u), lambda o: np.broadcast_to(o.a, (3, 3)),
       lambda o: np.dot(o.a, o.u), lambda o: np.cross(o.a, o.u) if False else np.maximum(o.a, o.Q), lambda o: o.a[:, :, 0], lambda o: np.transpose(o.a, (0, 0)), lambda o: np.trace(o.b), lambda o: np.linalg.det(o.a), lambda o: np.take(o.a, 0, axis=2), lambda o: o.b @ o.u]

def ops_ns(make):
    o = O()
    for n, (shape, dtype, rng) in SPEC.items(): setattr(o, n, make(n, shape, dtype, rng))
    return o

def dummies():
    rng = numpy.random.default_rng(0)
    def mk(n, shape, dtype, r):
        if dtype == float: return rng.uniform(.25, .75, shape)
        if dtype == complex: return rng.uniform(.25, .75, shape) + 1j * rng.uniform(.25, .75, shape)
        if dtype == bool: return rng.integers(0, 2, shape).astype(bool)
        return rng.integers(r[0], r[1] + 1, shape)
    return ops_ns(mk)

def flatten(r):
    if isinstance(r, (tuple, list)): return [x for y in r for x in flatten(y)]
    return [r]

def make_leaf(leaf):
    '''point: an arbitrary value per point (PointArg); arg: a function.Argument (one value, point axes prepended by the lowering protocol)'''
    if leaf == 'arg': return lambda n, shape, dtype, r: function.Argument(n, shape, dtype=dtype)
    return lambda n, shape, dtype, r: fn.PointArg(n, shape, dtype)

def announced_arguments_sound(fa, points):
    '''every argument the lowered expression reads must be announced by the function array with the same shape and dtype'''
    ann = dict(fa.arguments)
    bad = []
    for a in fn.lower(fa, points).arguments:
        if isinstance(a, ev.Argument):
            shape = tuple(int(n.value) if isinstance(n, ev.Constant) else None for n in a.shape)
            if a.name not in ann: bad.append(f'{a.name} is read but not announced')
            elif (tuple(ann[a.name][0]), ann[a.name][1]) != (shape, a.dtype): bad.append(f'{a.name} announced as {ann[a.name]} but read as {(shape, a.dtype.__name__)}')
    return bad

def run_case(item):
    fname, ci, points = item[:3]
    leaf = item[3] if len(item) > 3 else 'point'
    lam = (CASES[fname] if fname != 'compose' else COMPOSE)[ci]
    key = f'{fname}[{ci}] points_shape={points}' + (' leaves=Argument' if leaf == 'arg' else '')
    res = dict(key=key, fname=fname, viol=[], unconfirmed=[], q=dict(exact_unsat=0, margin_unsat=0, sat=0, unknown=0, trivial=0), paths=0, status='ok', nontrivial=False)
    # shape / kind oracle: real numpy on concrete dummies
    D = dummies()
    with numpy.errstate(all='ignore'):
        want = flatten(lam(D))
    want_struct = [({'b': 'b', 'i': 'i', 'u': 'i', 'f': 'f', 'c': 'c'}[numpy.asarray(w).dtype.kind], numpy.shape(w)) for w in want]
    fo = ops_ns(make_leaf(leaf))
    try:
        fres = flatten(lam(fo))
    except Exception as ex:
        res['viol'].append((f'{key}: building the function array raised {type(ex).__name__}: {ex}'[:300], dict(fname=fname, case=ci, points=list(points), leaf=leaf, kind='build'))); return res
    for k, (fa, ws) in enumerate(zip(fres, want_struct)):
        if not isinstance(fa, function.Array): fa = function.Array.cast(fa)
        if (fn.kind(fa.dtype), tuple(fa.shape)) != ws:
            res['viol'].append((f'{key}: function array announces {(fa.dtype.__name__, tuple(fa.shape))}, NumPy gives {ws}', dict(fname=fname, case=ci, points=list(points), leaf=leaf, kind='static'))); return res
    fres = [function.Array.cast(fa) for fa in fres]
    if leaf == 'arg':
        try:
            bad = [b for fa in fres for b in announced_arguments_sound(fa, points)]
        except Exception as ex:
            bad = []
        if bad:
            res['viol'].append((f'{key}: announced arguments are unsound: {"; ".join(bad[:3])}', dict(fname=fname, case=ci, points=list(points), leaf=leaf, kind='arguments'))); return res
    try:
        with treelog.set(treelog.NullLog()):
            f = with_timeout(60, lambda: sym_compile(tuple(fn.lower(fa, points) for fa in fres)))
    except Timeout:
        res['status'] = 'compile_timeout'; return res
    except Exception as ex:
        res['viol'].append((f'{key}: lowering/compiling raised {type(ex).__name__}: {ex}'[:300], dict(fname=fname, case=ci, points=list(points), leaf=leaf, kind='lower'))); return res
    # operands that the lowering uses without point axes (e.g. index arrays of take) get one value for all points
    lowered_shapes = {}
    for fa in fres:
        for a in fn.lower(fa, points).arguments:
            if isinstance(a, ev.Argument): lowered_shapes.setdefault(a.name, set()).add(tuple(int(n.value) for n in a.shape))
    pointless = {n for n, shapes in lowered_shapes.items() if points and shapes == {tuple(SPEC[n][0])}}
    if any(len(s_) > 1 for s_ in lowered_shapes.values()):
        res['status'] = 'mixed-point-usage'; return res
    def run():
        vals, _ = fn.symbolic_operands(SPEC, points)
        for n in pointless:
            first = vals[n][(0,) * len(points)]
            vals[n] = first
        refs = []
        for p in numpy.ndindex(*points):
            op = O()
            for n in SPEC: setattr(op, n, vals[n] if n in pointless else vals[n][p])
            refs.append(flatten(lam(op)))
        d0 = list(ctx().defined)
        out = f(vals)
        return refs, d0, out, vals
    _, assume = fn.symbolic_operands(SPEC, points)
    try:
        paths, complete = with_timeout(120, lambda: explore(run, assumptions=assume, max_paths=16, timeout_ms=10000))
    except Timeout:
        res['status'] = 'harness_timeout'; return res
    res['paths'] = len(paths)
    for P in paths:
        if P.tag == 'unsupported': res['status'] = 'unsupported'; res['unsupported'] = str(P.value)[:70]; continue
        if P.tag == 'abort': continue
        if P.tag == 'exc':
            res['status'] = 'raises'; res['unsupported'] = f'{type(P.value).__name__}: {P.value}'[:70]; continue
        refs, d0, out, vals = P.value
        for k, o_k in enumerate(out):
            o_k = SArray.wrap(o_k)
            for pi, p in enumerate(numpy.ndindex(*points)):
                ref = SArray.wrap(refs[pi][k]); got = o_k[p]
                if solve.structure(ref) != solve.structure(got):
                    res['viol'].append((f'{key}: value at point {p} has structure {solve.structure(got)}, NumPy gives {solve.structure(ref)}', dict(fname=fname, case=ci, points=list(points), leaf=leaf, kind='structure'))); continue
                try:
                    v = solve.equiv(ref, got, pc=P.pc, defined=d0, side=P.side, timeout_ms=10000, margin=1e-9, budget_s=15)
                except Unsupported as ex:
                    res['status'] = 'unsupported'; res['unsupported'] = str(ex)[:70]; continue
                for kk, n in v.counts().items(): res['q'][kk] += n
                for idx, m in v.models[:1]:
                    cv = solve.concretize(m, vals)
                    ok, detail = replay(fname, ci, points, cv, leaf)
                    if ok: res['viol'].append((f'{key}: differs from NumPy at point {p}: {detail}'[:600], dict(fname=fname, case=ci, points=list(points), leaf=leaf, kind='value', operands=tv.tolist(cv))))
                    else: res['unconfirmed'].append(f'{key}: model did not reproduce ({detail})')
    res['nontrivial'] = res['q']['exact_unsat'] + res['q']['sat'] + res['q']['margin_unsat'] > 0
    return res

def replay(fname, ci, points, operands, leaf='point'):
    '''real nutils evaluation with real numpy vs numpy applied per point'''
    lam = (CASES[fname] if fname != 'compose' else COMPOSE)[ci]
    fo = ops_ns(make_leaf(leaf))
    try:
        with treelog.set(treelog.NullLog()), numpy.errstate(all='ignore'), warnings.catch_warnings():
            warnings.simplefilter('ignore')
            fres = [function.Array.cast(x) for x in flatten(lam(fo))]
            args = {n: numpy.asarray(operands[n], dtype=SPEC[n][1]) for n in SPEC}
            out = ev.compile(tuple(fn.lower(fa, points) for fa in fres))(args)
            for pi, p in enumerate(numpy.ndindex(*points)):
                op = O()
                for n in SPEC: setattr(op, n, args[n] if (points and args[n].shape == tuple(SPEC[n][0])) else args[n][p])
                ref = flatten(lam(op))
                if not tv.finite(ref): return False, 'NumPy result not finite'
                for k in range(len(ref)):
                    got = numpy.asarray(out[k])[p]
                    if not tv.same(numpy.asarray(ref[k]), got): return True, f'nutils {tv.tolist(got)} vs NumPy {tv.tolist(ref[k])} (operands at point {tv.tolist({n: args[n][p] for n in SPEC if n in "abcdsvijnkrmqzwMQuTe"})})'[:500]
    except Exception as ex:
        return True, f'raised {type(ex).__name__}: {ex}'
    return False, 'agree'

def bad_cases():
    out = []
    D = dummies()
    fo = ops_ns(lambda n, shape, dtype, r: fn.PointArg(n, shape, dtype))
    for i, lam in enumerate(BAD):
        try:
            lam(D); numpy_rejects = False
        except Exception:
            numpy_rejects = True
        try:
            lam(fo); nutils_rejects = False
        except Exception:
            nutils_rejects = True
        out.append((i, numpy_rejects, nutils_rejects))
    return out

def main(argv=None):
    args = harness.parse_args(PID, argv)
    if args.replay:
        import json
        d = json.load(open(args.replay))['replay']
        if d['kind'] == 'value': ok, detail = replay(d['fname'], d['case'], tuple(d['points']), d['operands'], d.get('leaf', 'point'))
        else:
            r = run_case((d['fname'], d['case'], tuple(d['points']), d.get('leaf', 'point'))); ok, detail = bool(r['viol']), str(r['viol'][:1])
        print('REPRODUCED' if ok else 'not reproduced', detail); return 1 if ok else 0
    run = harness.Run(PID, 'translation_validation', args,
        'Each NumPy call signature is applied to per-point symbolic function-array leaves through nutils\' real NEP-13/18 dispatch, lowered with points_shape (), (2,) [and (2,2)], compiled and run on z3 terms; '
        'the oracle applies the same NumPy function to the operands\' symbolic values point by point.  z3 decides equality per element for all operand values; announced shape/kind are compared with real NumPy.')
    run.stubs = STUBS + ['oracle: NumPy API dispatched onto symx.SArray (conformance-tested against real NumPy)']
    run.assumptions = ['floats as reals, ints as mathematical integers; transcendental functions uninterpreted (sound for equivalence)', 'point axes are generic axes of the lowering protocol (topologies: C08/C11)', 'declared ranges of integer operands: ' + str({k: v[2] for k, v in SPEC.items() if v[2]})]
    # the operation table is read from the real dispatch table
    table = {getattr(k, '__name__', str(k)) for k in function.HANDLED_FUNCTIONS}
    uncovered = sorted(n for n in table if not CASES.get(n))
    declined = {'sinc': 'no symbolic model of sinc(x, n)', 'eig': 'eigen-decomposition: no exact symbolic semantics', 'eigh': 'eigen-decomposition: no exact symbolic semantics'}
    unknown_uncovered = [n for n in uncovered if n not in declined]
    if unknown_uncovered: run.harness_error(f'dispatch-table entries without call signatures: {unknown_uncovered}')
    stale = sorted(n for n in CASES if n not in table and n not in ('__getitem__', 'operators'))
    pts = [(), (2,)] + ([(2, 2)] if args.tier == 'thorough' else [])
    items = []
    rng = random.Random(args.seed)
    for fname, lams in CASES.items():
        if fname not in table and fname not in ('__getitem__', 'operators'): continue
        for ci in range(len(lams)):
            for p in (pts if args.tier == 'thorough' or ci < 2 else [rng.choice(pts)]): items.append((fname, ci, p, 'point'))
            # the same call on function.Argument leaves: one value for all points, point axes prepended by the lowering; announced arguments checked
            for p in (pts[1:] if args.tier == 'thorough' else [(2,)]): items.append((fname, ci, p, 'arg'))
    for ci in range(len(COMPOSE)):
        for p in (pts if args.tier == 'thorough' else [(2,)]): items.append(('compose', ci, p, 'point')); items.append(('compose', ci, p, 'arg'))
    if args.only: items = [it for it in items if args.only in it[0]]
    run.bounds = dict(dispatch_table_entries=len(table), entries_with_signatures=len(table) - len(uncovered), declined=declined, stale_signature_names=stale, cases=len(items), points_shapes=[list(p) for p in pts], operand_shapes={k: v[0] for k, v in SPEC.items()})
    with harness.FuncTrace() as ft:
        run_case(('add', 0, (2,))); run_case(('take', 0, ()))
    run.functions = {n for n in ft.names if 'function' in n or 'evaluable.compile' in n or '_BlockTreeBuilder' in n}
    # vacuity twin
    lam = CASES['add'][0]
    fo = ops_ns(lambda n, shape, dtype, r: fn.PointArg(n, shape, dtype)); f = sym_compile(fn.lower(lam(fo) + 1., ()))
    def tw():
        vals, _ = fn.symbolic_operands(SPEC, ()); op = O()
        for n in SPEC: setattr(op, n, vals[n])
        return lam(op), f(vals)
    paths, _ = explore(tw); ref, got = paths[0].value; run.twin(solve.equiv(ref, got).sat > 0)
    covered_entries = set()
    for res in harness.pmap(run_case, items, args.jobs, chunksize=2):
        if 'harness_error' in res:
            run.counters['worker_error'] += 1
            if run.counters['worker_error'] <= 5: run.inconclusive.append('worker error: ' + res['harness_error'][:500])
            continue
        run.counters[res['status']] += 1
        run.case(res['key'], res['nontrivial']); run.add_queries(res['q']); run.paths += res['paths']
        if res['nontrivial']: covered_entries.add(res['fname'])
        for what, rp in res['viol']: run.violation(f'{rp["fname"]}[{rp["case"]}]:{rp["kind"]}', what, rp)
        for u in res['unconfirmed']: run.unconfirmed(res['key'], u)
        if res['status'] in ('unsupported', 'raises'): run.counters[f'{res["status"]}:{res["fname"]}:' + res.get('unsupported', '')[:50]] += 1
        if res['nontrivial']: run.sample(dict(case=res['key'], queries=res['q']), limit=10)
    for i, numpy_rejects, nutils_rejects in bad_cases():
        run.case(f'reject[{i}]', False)
        if numpy_rejects and not nutils_rejects:
            run.violation(f'reject[{i}]', f'operand combination BAD[{i}] is rejected by NumPy for shape reasons but accepted when building the function array', dict(fname='reject', case=i, points=[], kind='reject'))
    run.bounds['entries_decided_by_solver'] = sorted(covered_entries)
    return run.finish(dict(programs=run.cases, disagreements_checked=run.queries['sat'] + len(run.violations)))

if __name__ == '__main__':
    sys.exit(main())
