'''C08 - differential-geometric operators obey their defining identities (partially applicable: pointwise clauses).

grad, div, laplace, symgrad, curl, normal, jacobian on real topologies (line, square, triangle; cube thorough) are lowered
at a SYMBOLIC local point xi of each enumerated element / boundary element through LowerArgs.for_space with
coordinates = evaluable.Argument, compiled by the real generator and run on z3 terms.  Geometry: affine maps with SYMBOLIC
coefficients (det != 0 assumed) and a quadratic map with symbolic amplitude; fields: polynomials of the geometry with
symbolic coefficients.  Oracle: calculus - grad(p(x), x) = p'(x) written out analytically on the same lowered geometry,
div = tr grad, laplace = div grad; normals are unit, orthogonal to the boundary tangents and outward; J is the volume /
length scale of the composed map.  Declined: all integral clauses (quadrature in binary64).'''
import sys, random, warnings, numpy, z3, itertools
warnings.simplefilter('ignore')
from symx import harness, tv, solve, fn
from symx.sym import explore, ctx, Unsupported, PathAbort, lift, SReal
from symx.sarray import SArray
from symx.run import sym_compile, STUBS
from symx.harness import Timeout, with_timeout
from nutils import function, evaluable as ev, mesh
import treelog

PID = 'C08'

def topologies(tier):
    T = {}
    T['line'] = mesh.rectilinear([numpy.array([0., 1., 3.])])
    T['square'] = mesh.rectilinear([numpy.array([0., 1., 2.]), numpy.array([0., 2.])])
    T['triangle'] = mesh.unitsquare(1, 'triangle')
    if tier == 'thorough':
        T['cube'] = mesh.rectilinear([numpy.array([0., 1.]), numpy.array([0., 2.]), numpy.array([0., 1., 3.])])
        T['refined'] = (T['square'][0].refined, T['square'][1])
    return T

_BT = {}
def boundary_topologies(tier):
    '''name -> (boundary topology, root geometry, ndims, interior point of the (convex) domain in root coordinates): the subjects of the normal obligations'''
    if tier in _BT: return _BT[tier]
    B = {}
    def add(name, topo, geom0, btopo=None):
        with treelog.set(treelog.NullLog()):
            btopo = topo.boundary if btopo is None else btopo
            vol = topo.integrate(function.J(geom0), degree=2)
            c = topo.integrate(geom0 * function.J(geom0), degree=2) / vol
        B[name] = (btopo, geom0, topo.ndims, numpy.asarray(c, dtype=float))
    T = topologies(tier)
    for nm in ('line', 'square', 'triangle'): add(nm, *T[nm])
    t, g = T['triangle']; add('triangle.refined.boundary', t.refined, g); add('triangle.boundary.refined', t, g, t.boundary.refined)
    t, g = mesh.unitsquare(2, 'triangle')
    with treelog.set(treelog.NullLog()):
        add('triangle.trimmed(maxrefine=1)', t.trim(.37 - .3 * g[0] - .5 * g[1], maxrefine=1), g)
        add('square.trimmed(maxrefine=2)', mesh.unitsquare(2, 'square')[0].trim(.37 - .3 * mesh.unitsquare(2, 'square')[1][0] - .5 * mesh.unitsquare(2, 'square')[1][1], maxrefine=2), mesh.unitsquare(2, 'square')[1]) if False else None
    t3, g3 = mesh.rectilinear([numpy.array([0., 1.])] * 3)
    import nutils.topology as _tp
    try:
        ts, gs = mesh.simplex(nodes=numpy.array([[0, 1, 2, 4], [1, 2, 4, 3]]) if False else numpy.array([[0, 1, 2, 3], [1, 2, 3, 4]]), cnodes=numpy.array([[0, 1, 2, 3], [1, 2, 3, 4]]),
                              coords=numpy.array([[0., 0., 0.], [1., 0., 0.], [0., 1., 0.], [0., 0., 1.], [1., 1., 1.]]), tags={}, btags={}, ptags={})
        add('tets', ts, gs)
        add('tets.refined.boundary', ts.refined, gs); add('tets.boundary.refined', ts, gs, ts.boundary.refined)
    except Exception as ex:
        B['_tets_error'] = str(ex)
    if tier == 'thorough':
        add('cube', *T['cube']); add('square.refined.boundary', T['square'][0].refined, T['square'][1])
    _BT[tier] = B
    return B

def monos(x, n):
    '''monomials up to degree 2 (3 for 1-D) of the coordinates x (function array of shape (n,)) and their analytic gradients/laplacians (as function arrays of x)'''
    one = x[0] * 0 + 1.; zero = x[0] * 0
    M = [(one, [zero] * n, zero)]
    for i in range(n):
        g = [zero] * n; g[i] = one
        M.append((x[i], g, zero))
    for i in range(n):
        for j in range(i, n):
            g = [zero] * n
            if i == j: g[i] = 2. * x[i]
            else: g[i] = x[j]; g[j] = x[i]
            M.append((x[i] * x[j], g, (2. * one) if i == j else zero))
    if n == 1:
        M.append((x[0] ** 3, [3. * x[0] * x[0]], 6. * x[0]))
    return M

def lower_at(f, topo, ielem, xi_name='xi', boundary=False):
    f = function.Array.cast(f)
    space, = topo.spaces
    coords = ev.Argument(xi_name, (ev.constant(topo.ndims),), float)
    args = function.LowerArgs.for_space(space, (topo.transforms, topo.opposites), ev.constant(ielem), coords)
    return f.lower(args)

# concrete affine maps (dyadic entries): one in each connected component of GL(n) - orientation facts are decided there (unit length and orthogonality
# are decided for the symbolic matrix; a unit vector orthogonal to the surface that depends continuously on G keeps its side on each component)
GCONC = {1: dict(A=[[2.]], B=[[-2.]]), 2: dict(A=[[2., 1.], [0., 1.]], B=[[0., 1.], [2., 1.]]), 3: dict(A=[[2., 1., 0.], [0., 1., .5], [0., 0., 1.]], B=[[0., 1., 0.], [1., 0., .5], [0., 0., 2.]])}

def geometries(geom0, n):
    G = function.Argument('G', (n, n)); g0 = function.Argument('g0', (n,))
    out = {'affine': (G @ geom0 + g0, dict(G=(n, n), g0=(n,)), 'G')}
    for tag, M in GCONC[n].items():
        out['affine-' + tag] = (numpy.array(M) @ geom0 + g0, dict(g0=(n,)), numpy.array(M))
    if n == 2:
        a = function.Argument('amp', ())
        out['quadratic'] = (geom0 + a * numpy.stack([geom0[0] * geom0[1], geom0[0] * geom0[0]]), dict(amp=()), None)
    elif n == 1:
        a = function.Argument('amp', ())
        out['quadratic'] = (geom0 * (1. + a * geom0), dict(amp=()), None)
    return out

def build_case(tname, gname, what, tier):
    '''returns (pairs [(label, candidate function array, reference function array)], argument spec, topo to lower on, element list)'''
    topo, geom0 = topologies(tier)[tname]
    n = topo.ndims
    geom, spec, Gname = geometries(geom0, n)[gname]
    M = monos(geom, n)
    c = function.Argument('pc', (len(M),))
    spec = dict(spec, pc=(len(M),))
    p = sum(c[k] * m for k, (m, g, l) in enumerate(M))
    dp = numpy.stack([sum(c[k] * g[i] for k, (m, g, l) in enumerate(M)) for i in range(n)])
    lap = sum(c[k] * l for k, (m, g, l) in enumerate(M))
    pairs = []
    if what == 'grad':
        pairs.append(('grad(p(x), x) == p\'(x)', function.grad(p, geom), dp))
        pairs.append(('grad of the geometry is the identity', function.grad(geom, geom), numpy.eye(n) + 0 * geom[0]))
    elif what == 'div':
        c2 = function.Argument('pd', (n, len(M))); spec['pd'] = (n, len(M))
        v = numpy.stack([sum(c2[i, k] * m for k, (m, g, l) in enumerate(M)) for i in range(n)])
        divv = sum(sum(c2[i, k] * g[i] for k, (m, g, l) in enumerate(M)) for i in range(n))
        pairs.append(('div(v) == trace of the analytic gradient', function.div(v, geom), divv))
        sg = numpy.stack([numpy.stack([.5 * (sum(c2[i, k] * g[j] for k, (m, g, l) in enumerate(M)) + sum(c2[j, k] * g[i] for k, (m, g, l) in enumerate(M))) for j in range(n)]) for i in range(n)])
        pairs.append(('symgrad(v) == symmetric part of the analytic gradient', function.symgrad(v, geom), sg))
    elif what == 'laplace':
        pairs.append(('laplace(p) == analytic laplacian', function.laplace(p, geom), lap))
    elif what == 'curl':
        c2 = function.Argument('pd', (3, len(M))); spec['pd'] = (3, len(M))
        v = numpy.stack([sum(c2[i, k] * m for k, (m, g, l) in enumerate(M)) for i in range(3)])
        dv = [[sum(c2[i, k] * g[j] for k, (m, g, l) in enumerate(M)) for j in range(3)] for i in range(3)]
        curl = numpy.stack([dv[2][1] - dv[1][2], dv[0][2] - dv[2][0], dv[1][0] - dv[0][1]])
        pairs.append(('curl(v) == analytic curl', function.curl(v, geom), curl))
    return pairs, spec, topo, geom, Gname

def case(item):
    tname, gname, what, tier = item
    key = f'geometry defined through the basis of the coarse {tname} mesh, evaluated on its refinement of level {gname}' if what == 'basisgeom' else f'{what} on {tname} with {gname} geometry' if what != 'bnormal' else f'normal on the boundary {tname} with {gname} geometry'
    res = dict(key=key, viol=[], unconfirmed=[], q=dict(exact_unsat=0, margin_unsat=0, sat=0, unknown=0, trivial=0), status='ok', nontrivial=False)
    with treelog.set(treelog.NullLog()):
        if what in ('grad', 'div', 'laplace', 'curl'):
            try:
                pairs, spec, topo, geom, Gname = build_case(tname, gname, what, tier)
            except Exception as ex:
                res['status'] = f'build:{type(ex).__name__}:{str(ex)[:60]}'; return res
            lowtopo = topo
            elems = range(len(topo)) if len(topo) <= 4 else range(0, len(topo), max(1, len(topo) // 4))
            extra = lambda vals: []
        elif what == 'basisgeom':
            level = int(gname); pairs = []; lowtopo = None; extra = lambda vals: []
            try:
                nf = 8 * 4 ** level
                for ie in sorted(set([0, nf // 3, nf - 1])):
                    facts, spec, ft = basis_geometry_facts(level, ie)
                    pairs.append((ie, ft, facts))
            except Exception as ex:
                res['status'] = f'build:{type(ex).__name__}:{str(ex)[:80]}'; return res
        elif what == 'bnormal':
            btopo = boundary_topologies(tier)[tname][0]
            nb = len(btopo)
            sel = list(range(nb)) if nb <= 8 else sorted(set(range(0, nb, max(1, nb // 8))))[:8]
            pairs = []; lowtopo = None; extra = lambda vals: []
            try:
                for ie in sel:
                    facts, spec, bt = normal_facts(tname, gname, tier, ie)
                    pairs.append((ie, bt, facts))
            except Exception as ex:
                res['status'] = f'build:{type(ex).__name__}:{str(ex)[:80]}'; return res
        else:
            pairs, spec, lowtopo, elems, extra = build_boundary_case(tname, gname, what, tier)
        if what in ('bnormal', 'basisgeom'):
            work = [(bt, ie, label, cand, ref) for ie, bt, facts in pairs for label, cand, ref in facts]
        elif lowtopo is None:     # per named boundary
            work = [(bt, i, label, cand, ref) for bt, eqs in pairs for i in range(min(len(bt), 2)) for label, cand, ref in eqs]
        else:
            work = [(lowtopo, i, label, cand, ref) for i in elems for label, cand, ref in pairs]
        for lowtopo, ielem, label, cand, ref in work:
            n = lowtopo.ndims
            if True:
                try:
                    ec = lower_at(cand, lowtopo, ielem); er = lower_at(ref, lowtopo, ielem)
                    fc = with_timeout(120, lambda: sym_compile(ev.Tuple((ec, er))))
                except Timeout:
                    res['status'] = 'compile_timeout'; continue
                except Exception as ex:
                    res['viol'].append((f'{key} [{label}] element {ielem}: lowering raised {type(ex).__name__}: {ex}'[:300], dict(kind='lower', item=list(item), label=label, element=ielem))); continue
                def run():
                    vals = {nm: SArray.symbolic(nm, shape) for nm, shape in spec.items()}
                    vals['xi'] = SArray.symbolic('xi', (n,))
                    c_, r_ = fc(vals)
                    return SArray.wrap(r_), SArray.wrap(c_), vals, list(ctx().defined)
                nfull = len(spec.get('g0', (n,))) if 'g0' in spec else (2 if 'amp' in spec and n == 1 and False else n)
                # assumptions: the point lies in the reference element, the geometry is invertible
                try:
                    paths, _ = with_timeout(200, lambda: explore(run, max_paths=4, timeout_ms=10000))
                except Timeout:
                    res['status'] = 'timeout'; continue
                P = paths[0]
                if P.tag != 'ok':
                    res['status'] = P.tag; res['note'] = str(P.value)[:120]; continue
                ref_v, cand_v, vals, d0 = P.value
                if solve.structure(ref_v)[1] != solve.structure(cand_v)[1]:
                    res['viol'].append((f'{key} [{label}] element {ielem}: shape {cand_v.shape} vs {ref_v.shape}', dict(kind='shape', item=list(item), label=label, element=ielem))); continue
                assume = list(P.pc) + [z3.And(x.t >= 0, x.t <= 1) for x in vals['xi'].a] + extra(vals)
                if 'G' in vals:
                    ng = vals['G'].shape[0]
                    det = numpy.linalg.det(vals['G']) if ng > 1 else vals['G'][0, 0]
                    assume.append(lift(SArray.wrap(det).a[()]).t != 0)
                if 'amp' in vals: assume += [vals['amp'].a[()].t >= 0, vals['amp'].a[()].t <= z3.RealVal('1/8')]
                v = solve.equiv(ref_v, cand_v, pc=assume, defined=[], side=P.side, timeout_ms=20000, margin=1e-7, box=4, budget_s=90)
                for k, cnt in v.counts().items(): res['q'][k] += cnt
                detail = ''
                for idx, m in v.models[:2]:
                    cv = {nm: numpy.asarray(x, dtype=float) for nm, x in solve.concretize(m, vals).items()}
                    ok, detail = replay(item, label, ielem, cv)
                    if ok:
                        res['viol'].append((f'{key} [{label}] element {ielem}: {detail}'[:600], dict(kind='value', item=list(item), label=label, element=ielem, values=tv.tolist(cv)))); break
                else:
                    if v.models: res['unconfirmed'].append(f'{key} [{label}] element {ielem}: model did not reproduce ({detail})')
    res['nontrivial'] = res['q']['exact_unsat'] + res['q']['margin_unsat'] + res['q']['sat'] > 0
    return res

# ---------------------------------------------------------------- normals on arbitrary boundary topologies

def _root_frame(btopo, geom0, ie, c):
    '''concrete data of boundary element ie in root coordinates: base point, tangents, outward unit normal (w.r.t. the interior point c of the convex domain)'''
    nb = btopo.ndims
    f = ev.compile(lower_at(geom0, btopo, ie))
    p0 = numpy.asarray(f(dict(xi=numpy.zeros(nb))), dtype=float)
    T = numpy.array([numpy.asarray(f(dict(xi=numpy.eye(nb)[k])), dtype=float) - p0 for k in range(nb)]).reshape(nb, len(p0))
    if nb == 0: n0 = numpy.sign(p0 - c)
    elif nb == 1: n0 = numpy.array([T[0, 1], -T[0, 0]])
    else: n0 = numpy.cross(T[0], T[1])
    n0 = n0 / numpy.linalg.norm(n0)
    mid = p0 + T.sum(0) / (nb + 1) if nb else p0
    if n0 @ (mid - c) < 0: n0 = -n0
    return p0, T, n0

def normal_facts(bname, gname, tier, ie):
    '''[(label, candidate function array, reference function array)] for boundary element ie, plus the argument spec'''
    btopo, geom0, n, c = boundary_topologies(tier)[bname]
    geom, spec, Gname = geometries(geom0, n)[gname]
    nrm = function.normal(geom)
    one = geom0[0] * 0 + 1.
    p0, T, n0 = _root_frame(btopo, geom0, ie, c)
    facts = [('normal is a unit vector', nrm @ nrm, one)]
    if gname.startswith('affine'):
        G = function.Argument('G', (n, n)) if gname == 'affine' else numpy.asarray(Gname)
        w = numpy.einsum('ji,j->i', G, nrm) if n > 1 else G[0] * nrm       # G^T n must be a positive multiple of the outward root normal n0
        for k in range(len(T)):
            facts.append((f'normal is orthogonal to boundary tangent {k}', w @ numpy.asarray(T[k]), one * 0.))
        if gname != 'affine': facts.append(('normal points out of the domain', numpy.sign(w @ numpy.asarray(n0)), one))
    else:
        # quadratic geometry x = x0 + a q(x0): the jacobian at the boundary point replaces G
        a = function.Argument('amp', ())
        if n == 2: Jm = numpy.eye(2) + a * numpy.stack([numpy.stack([geom0[1], geom0[0]]), numpy.stack([2. * geom0[0], geom0[0] * 0])])
        else: Jm = (1. + 2. * a * geom0)[numpy.newaxis]
        w = numpy.einsum('ji,j->i', Jm, nrm)
        for k in range(len(T)):
            facts.append((f'normal is orthogonal to boundary tangent {k}', w @ numpy.asarray(T[k]), one * 0.))
        facts.append(('normal points out of the domain', numpy.sign(w @ numpy.asarray(n0)), one))
    # one pair per boundary element (a single symbolic run; the non-zero proofs of the norms are shared by all facts)
    label = 'normal: ' + ' | '.join(l.replace('normal ', '') for l, c_, r_ in facts)
    facts = [(label, numpy.stack([c_ for l, c_, r_ in facts]), numpy.stack([r_ for l, c_, r_ in facts]))]
    return facts, spec, btopo

# ---------------------------------------------------------------- geometries defined through a basis of a COARSER topology, evaluated on refinements

def basis_geometry_facts(level, ie):
    '''geometry x = sum_i C_i phi_i with phi the std-1 basis of the once refined 2x1 mesh and (concrete, dyadic) nodal values C, evaluated on element ie of the mesh refined `level` times.
    On the coarse parent element x is the bilinear interpolant of its four nodal values: value, gradient with respect to the root geometry and J have closed forms in the
    root coordinates, which reach the generated code through TransformCoords only (the relative TransformLinear / derivative-target path is what is being checked).'''
    topo, geom0 = topologies('quick')['square']
    topo = topo.refined          # the basis lives on a topology that is itself a refinement (its element transforms have a non-trivial linear part)
    fine = topo
    for _ in range(level): fine = fine.refined
    basis = topo.basis('std', degree=1)
    nd = len(basis)
    # nodal values: concrete dyadic numbers (symbolic nodal values make the J^2 identity a degree-8 polynomial in 12 unknowns, out of reach within the budget);
    # any nodal values define a piecewise bilinear map for which the three facts hold as polynomial identities in the local point
    Cb = numpy.random.default_rng(5).integers(-8, 9, (nd, 2)) / 4.
    g = numpy.einsum('i,ij->j', basis, Cb)
    # parent element and its nodes (concrete)
    with treelog.set(treelog.NullLog()):
        X = numpy.asarray(ev.compile(lower_at(geom0, fine, ie))(dict(xi=numpy.full(2, .5))), dtype=float)       # root coordinate of the fine element's centre
        verts = [numpy.array([0., .5, 1., 1.5, 2.]), numpy.array([0., 1., 2.])]
        lo = numpy.array([v[numpy.searchsorted(v, x, side='right') - 1] for v, x in zip(verts, X)]); hi = numpy.array([v[numpy.searchsorted(v, x, side='right')] for v, x in zip(verts, X)])
        # dof at each corner: the basis function that is 1 there
        corners = {}
        for cx in (0, 1):
            for cy in (0, 1):
                pt = numpy.array([[lo[0], hi[0]][cx], [lo[1], hi[1]][cy]])
                smp = topo.locate(geom0, pt[numpy.newaxis], eps=1e-10)
                vals = numpy.asarray(smp.eval(basis))[0]
                corners[cx, cy] = int(numpy.argmax(vals))
    h = hi - lo
    s_ = (geom0 - lo) / h       # local bilinear coordinates of the parent, as functions of the root geometry
    N = {(0, 0): (1 - s_[0]) * (1 - s_[1]), (1, 0): s_[0] * (1 - s_[1]), (0, 1): (1 - s_[0]) * s_[1], (1, 1): s_[0] * s_[1]}
    dN = {(0, 0): [-(1 - s_[1]) / h[0], -(1 - s_[0]) / h[1]], (1, 0): [(1 - s_[1]) / h[0], -s_[0] / h[1]], (0, 1): [-s_[1] / h[0], (1 - s_[0]) / h[1]], (1, 1): [s_[1] / h[0], s_[0] / h[1]]}
    gref = sum(N[c] * Cb[corners[c]] for c in N)
    dref = numpy.stack([numpy.stack([sum(dN[c][k] * Cb[corners[c], j] for c in N) for k in range(2)]) for j in range(2)])     # d x_j / d X_k
    det = dref[0, 0] * dref[1, 1] - dref[0, 1] * dref[1, 0]
    facts = [('value of a basis-defined geometry on a refined element', g, gref),
             ('gradient with respect to the root geometry', function.grad(g, geom0), dref),
             ('J(x)^2 == det(dx/dX)^2 J(X)^2', function.J(g) ** 2, det ** 2 * function.J(geom0) ** 2)]
    return facts, {}, fine

def build_boundary_case(tname, gname, what, tier):
    topo, geom0 = topologies(tier)[tname]
    n = topo.ndims
    geom, spec, Gname = geometries(geom0, n)[gname]
    btopo = topo.boundary
    nrm = function.normal(geom)
    pairs = []
    one = geom[0] * 0 + 1.
    lowtopo = btopo
    elems = range(len(btopo)) if len(btopo) <= 6 else range(0, len(btopo), max(1, len(btopo) // 6))
    if what == 'normal':
        pairs.append(('normal is a unit vector', nrm @ nrm, one))
        if gname == 'affine' and tname in ('line', 'square', 'cube', 'refined'):
            # structured meshes: named boundaries have known reference normals/tangents; for x = G x0 + g0 the normal must satisfy
            # (G^T n) . t_ref == 0 for every reference tangent and (G^T n) . n_ref > 0 (outward)
            G = function.Argument('G', (n, n))
            names = ['left', 'right', 'bottom', 'top', 'front', 'back'][:2 * n]
            out = []
            for k, nm in enumerate(names):
                axis, sign = k // 2, (-1. if k % 2 == 0 else 1.)
                bt = btopo[nm]
                w = numpy.einsum('ji,j->i', G, nrm) if n > 1 else G[0] * nrm
                eq = [(f'{nm}: normal is a unit vector', nrm @ nrm, one), (f'{nm}: normal points out of the element', numpy.sign(w[axis] * sign), one)]
                for tdir in range(n):
                    if tdir != axis: eq.append((f'{nm}: normal is orthogonal to the boundary tangent {tdir}', w[tdir], one * 0.))
                out.append((bt, eq))
            return out, spec, None, None, (lambda vals: [])
    if what == 'jacobian':
        lowtopo = topo; elems = range(min(len(topo), 3))
        if gname == 'affine':
            G = function.Argument('G', (n, n))
            det = numpy.linalg.det(G) if n > 1 else G[0, 0]
            pairs.append(('volume jacobian squared == (det G)^2 times the reference jacobian squared', function.J(geom) ** 2, det ** 2 * (function.J(geom0) ** 2)))
        else:
            pairs.append(('jacobian is positive', numpy.sign(function.J(geom)), one))
    return pairs, spec, lowtopo, elems, (lambda vals: [])

def replay(item, label, ielem, cv):
    '''real numpy: evaluate candidate and reference at the concrete point through the same lowering'''
    tname, gname, what, tier = item
    with treelog.set(treelog.NullLog()), numpy.errstate(all='ignore'):
        try:
            if what in ('grad', 'div', 'laplace', 'curl'):
                pairs, spec, topo, geom, Gname = build_case(tname, gname, what, tier); lowtopo = topo
            elif what == 'bnormal':
                pairs, spec, lowtopo = normal_facts(tname, gname, tier, ielem)
            elif what == 'basisgeom':
                pairs, spec, lowtopo = basis_geometry_facts(int(gname), ielem)
            else:
                pairs, spec, lowtopo, elems, extra = build_boundary_case(tname, gname, what, tier)
                if lowtopo is None:
                    lowtopo, pairs = [(bt, eqs) for bt, eqs in pairs if any(l == label for l, c, r in eqs)][0]
            cand, ref = [(c, r) for l, c, r in pairs if l == label][0]
            f = ev.compile((lower_at(cand, lowtopo, ielem), lower_at(ref, lowtopo, ielem)))
            c_, r_ = f(cv)
        except Exception as ex:
            return True, f'raised {type(ex).__name__}: {ex}'
    if not tv.finite(r_): return False, 'reference not finite'
    if not numpy.allclose(c_, r_, rtol=1e-7, atol=1e-9 * max(1., float(numpy.abs(r_).max(initial=0.)))): return True, f'operator gives {tv.tolist(c_)}, definition gives {tv.tolist(r_)} at {tv.tolist(cv)}'
    return False, 'agree'

def main(argv=None):
    args = harness.parse_args(PID, argv)
    if args.replay:
        import json
        d = json.load(open(args.replay))['replay']
        if d.get('values'): ok, detail = replay(tuple(d['item']), d['label'], d['element'], {k: numpy.array(v, dtype=float) for k, v in d['values'].items()})
        else:
            r = case(tuple(d['item'])); ok, detail = bool(r['viol']), str(r['viol'][:1])
        print('REPRODUCED' if ok else 'not reproduced', detail); return 1 if ok else 0
    run = harness.Run(PID, 'translation_validation', args,
        'grad/div/symgrad/laplace/curl/normal/J are lowered by the real code at a symbolic local point of each element (boundary element) of real topologies, for affine geometries with symbolic matrix and offset (det != 0) '
        'and a quadratic geometry with symbolic amplitude, and polynomial fields with symbolic coefficients; the generated functions run on z3 terms.  z3 decides per component that the operator equals the analytic derivative '
        'of the polynomial written on the same geometry (exact, or 1e-7 relative margin on a box since transform matrices and inverses are folded in binary64), that normals are unit vectors, and that J is the determinant scale.')
    run.stubs = STUBS + ['TransformCoords._transform_coords adapter: concrete transform chain applied to symbolic coordinates']
    run.assumptions = ['DECLINED: every integral clause (invariance of integrals, divergence theorem): Gauss weights are rounded binary64 numbers, the identities hold only approximately', 'local point xi in [0,1]^n (triangles: the unit square superset)',
                       'geometry invertible (det G != 0); quadratic amplitude in [0, 1/8]', 'polynomial fields of degree <= 2 (3 in 1-D)']
    tier = args.tier
    names = list(topologies(tier))
    items = []
    for tname in names:
        n = topologies(tier)[tname][0].ndims
        for gname in (['affine', 'quadratic'] if n <= 2 else ['affine']):
            for what in ['grad', 'div', 'laplace'] + (['curl'] if n == 3 else []) + ['jacobian']:      # normals: the bnormal cases below
                if what == 'laplace' and gname == 'quadratic' and tier == 'quick': continue
                items.append((tname, gname, what, tier))
    for level in ((0, 1, 2) if tier == 'quick' else (0, 1, 2, 3)): items.append(('square', str(level), 'basisgeom', tier))
    for bname, v in boundary_topologies(tier).items():
        if isinstance(v, str): run.unconfirmed(bname, v); continue
        gnames = ['affine-A', 'affine-B']
        if v[2] <= 2 and '.' not in bname: gnames += ['affine']        # symbolic matrix: 1-D/2-D unrefined meshes (the non-zero proof of the norm is out of reach of nlsat on refined/trimmed chains within the budget)
        if v[2] <= 2 and '.' not in bname: gnames += ['quadratic']
        for gname in gnames: items.append((bname, gname, 'bnormal', tier))
    if args.only: items = [it for it in items if args.only in ' '.join(it)]
    run.bounds = dict(cases=len(items), topologies=names, elements_per_topology='<= 6', polynomial_degree='<= 2 (3 in 1-D)', dimensions='1-2 (3 thorough)')
    with harness.FuncTrace() as ft:
        case(('line', 'affine', 'grad', tier))
    run.functions = {n for n in ft.names if 'function' in n or 'transform' in n or 'Transform' in n}
    # vacuity twin: grad compared with twice the analytic gradient must be refuted
    pairs, spec, topo, geom, _ = build_case('line', 'affine', 'grad', tier)
    with treelog.set(treelog.NullLog()):
        fc = sym_compile(ev.Tuple((lower_at(pairs[0][1], topo, 0), lower_at(pairs[0][2] * 2., topo, 0))))
    def tw():
        vals = {nm: SArray.symbolic(nm, shape) for nm, shape in spec.items()}; vals['xi'] = SArray.symbolic('xi', (1,))
        a, b = fc(vals); return SArray.wrap(a), SArray.wrap(b), vals
    paths, _ = explore(tw); a, b, vals = paths[0].value
    run.twin(solve.equiv(a, b, pc=[vals['G'].a[0, 0].t != 0]).sat > 0)
    slow = []
    for res in harness.pmap(case, items, args.jobs, chunksize=1, case_timeout=150 if args.tier == 'quick' else 900):
        if 'harness_error' in res:
            run.counters['worker_error'] += 1
            if run.counters['worker_error'] <= 5: run.inconclusive.append('worker error: ' + res['harness_error'][:600])
            continue
        run.counters[res['status']] += 1
        slow.append((res.get('_wall', 0), res['key']))
        run.case(res['key'], res['nontrivial']); run.add_queries(res['q'])
        if res['status'] != 'ok': run.unconfirmed(res['key'], res['status'] + ' ' + res.get('note', ''))
        for what, rp in res['viol']: run.violation(f'{res["key"]}:{rp["label"]}', what, rp)
        for u in res['unconfirmed']: run.unconfirmed(res['key'], u)
        if res['nontrivial']: run.sample(dict(case=res['key'], queries=res['q']), limit=12)
    run.cov['slowest_cases'] = [dict(seconds=w, case=k) for w, k in sorted(slow, reverse=True)[:10]]
    return run.finish(dict(programs=run.cases, disagreements_checked=run.queries['sat'] + len(run.violations)))

if __name__ == '__main__':
    sys.exit(main())
