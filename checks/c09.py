'''C09 - integration is exact quadrature of point evaluation (partially applicable).

Claimed: for every sample construction of a small DSL (plain gauss/uniform/bezier samples on 1-D and 2-D meshes, element
slices, products over two spaces, unions, take_elements, subset, custom index; nesting depth <= 2) and an integrand with
SYMBOLIC per-element coefficients, sample.integral(f) and sample.eval/bind(f) - lowered and compiled by the real code and
run on z3 terms - equal sum_p w_p f(x_p) resp. the values at the sample's own points in the order its index advertises.
The reference enumerates (element, local point, weight) from the definition of the construction using only the reference
elements' point tables.  Declined: exactness/positivity of the Gauss tables themselves (finite floating point facts).'''
import sys, random, warnings, numpy, z3, itertools
warnings.simplefilter('ignore')
from symx import harness, tv, solve, fn
from symx.sym import explore, ctx, Unsupported, PathAbort, lift
from symx.sarray import SArray
from symx.run import sym_compile, STUBS
from symx.harness import Timeout, with_timeout
from nutils import function, evaluable as ev, mesh, sample as smod
import treelog

PID = 'C09'
_M = {}
def meshes():
    if not _M:
        _M['L'] = mesh.rectilinear([numpy.array([0., 1., 3.])], space='A')            # 2 line elements
        _M['K'] = mesh.rectilinear([numpy.array([0., .5, 1., 2.])], space='Y')        # 3 line elements
        _M['Q'] = mesh.rectilinear([numpy.array([0., 1., 2.]), numpy.array([0., 2.])], space='Z')   # 2x1 squares
        _M['T'] = mesh.unitsquare(1, 'triangle')                                        # 2 triangles (space default)
    return _M

# sample descriptions
def plain(m, scheme, degree, sl=None): return ('plain', m, scheme, degree, sl)

def build(d):
    k = d[0]
    if k == 'plain':
        _, m, scheme, degree, sl = d
        topo, geom = meshes()[m]
        if sl is not None: topo = topo[sl[0]:sl[1]]
        return topo.sample(scheme, degree)
    if k == 'mul': return build(d[1]) * build(d[2])
    if k == 'add': return build(d[1]) + build(d[2])
    if k == 'take': return build(d[1]).take_elements(numpy.array(d[2]))
    if k == 'subset': return build(d[1]).subset(numpy.array(d[2], dtype=bool))
    if k == 'custom':
        s = build(d[1])
        perm = d[2]
        # custom index: reverse the point numbering within the sample
        n = s.npoints
        idx = [numpy.asarray(n - 1 - s.getindex(i)) if perm == 'reverse' else numpy.asarray(s.getindex(i)) for i in range(s.nelems)]
        space, = s.spaces
        return smod.Sample.new(space, s.transforms, s.points, tuple(idx))
    raise ValueError(d)

def spaces(d):
    k = d[0]
    if k == 'plain': return [d[1]]
    if k == 'mul': return spaces(d[1]) + spaces(d[2])
    return spaces(d[1])

def elements(d):
    '''reference enumeration: list over sample elements of (elem index per space (dict), [(xi per space (dict), weight)])'''
    k = d[0]
    if k == 'plain':
        _, m, scheme, degree, sl = d
        topo, geom = meshes()[m]
        lo, hi = (sl if sl is not None else (0, len(topo)))
        out = []
        for i in range(lo, hi):
            pts = topo.references[i].getpoints(scheme, degree)
            out.append(({m: i}, [({m: tuple(map(float, x))}, float(w)) for x, w in zip(pts.coords, pts.weights)]))
        return out
    if k == 'mul':
        A, B = elements(d[1]), elements(d[2])
        return [({**ea, **eb}, [({**xa, **xb}, wa * wb) for xa, wa in pa for xb, wb in pb]) for ea, pa in A for eb, pb in B]
    if k == 'add': return elements(d[1]) + elements(d[2])
    if k == 'take':
        E = elements(d[1]); idx = list(d[2])
        if d[1][0] == 'add':   # observed (undocumented) behaviour of a union: taken elements are grouped by operand, each group in the requested order
            n1 = len(elements(d[1][1])); idx = [i for i in idx if i < n1] + [i for i in idx if i >= n1]
        return [E[i] for i in idx]
    if k == 'subset':   # point mask: elements with at least one selected point are kept (documented: may contain more points, order preserved)
        E = elements(d[1]); out = []; off = 0
        for e in E:
            n = len(e[1])
            if any(d[2][off:off + n]): out.append(e)
            off += n
        return out
    if k == 'custom': return elements(d[1])
    raise ValueError(d)

def monomials(xi):
    return [1.] + list(xi)

def integrand(d):
    '''function array f = prod over spaces of (c_space[elem] . monomials(xi_space)); returns (f, coefficient spec)'''
    f = 1.; spec = {}
    for m in dict.fromkeys(spaces(d)):
        topo, geom = meshes()[m]
        nm = 1 + topo.ndims
        c = function.Argument('c' + m, (len(topo), nm))
        xi = topo.f_coords
        mono = numpy.stack([xi[0] * 0 + 1.] + [xi[i] for i in range(topo.ndims)])
        f = f * (c[topo.f_index] @ mono)
        spec['c' + m] = (len(topo), nm)
    return f, spec

def ref_value(cv, e, xi):
    v = 1.
    for m, ie in e.items():
        v = v * sum((cv['c' + m].a[ie, j] * mj for j, mj in enumerate(monomials(xi[m]))), lift(0.))
    return v

SAMPLES = [
    plain('L', 'gauss', 2), plain('L', 'gauss', 3), plain('L', 'uniform', 2), plain('L', 'bezier', 3), plain('K', 'gauss', 1), plain('K', 'uniform', 1),
    plain('Q', 'gauss', 2), plain('Q', 'bezier', 2), plain('Q', 'uniform', 2), plain('T', 'gauss', 2), plain('T', 'bezier', 2), plain('T', 'gauss', 4),
    plain('K', 'gauss', 2, (1, 3)), plain('Q', 'gauss', 1, (1, 2)),
    ('mul', plain('L', 'gauss', 2), plain('K', 'uniform', 1)), ('mul', plain('K', 'gauss', 1), plain('Q', 'gauss', 2)), ('mul', plain('L', 'bezier', 2), plain('T', 'gauss', 1)),
    ('add', plain('K', 'gauss', 2, (0, 1)), plain('K', 'gauss', 1, (1, 3))), ('add', plain('L', 'uniform', 2, (1, 2)), plain('L', 'gauss', 2, (0, 1))),
    ('take', plain('K', 'gauss', 2), [2, 0]), ('take', plain('Q', 'bezier', 2), [1]), ('take', plain('K', 'uniform', 2), [1, 1]) if False else ('take', plain('K', 'uniform', 2), [1, 2]),
    ('subset', plain('K', 'gauss', 2), [True, False, False, False, False, True]), ('custom', plain('K', 'gauss', 2), 'reverse'), ('custom', plain('L', 'uniform', 2), 'same'),
    ('take', ('mul', plain('L', 'gauss', 1), plain('K', 'gauss', 2)), [5, 0, 3]), ('mul', ('take', plain('K', 'gauss', 1), [2, 1]), plain('L', 'uniform', 2)),
    ('add', ('take', plain('K', 'gauss', 2), [2]), plain('K', 'bezier', 2, (0, 2))), ('take', ('add', plain('K', 'gauss', 2, (0, 1)), plain('K', 'gauss', 1, (1, 3))), [2, 0]),
    ('mul', ('add', plain('L', 'gauss', 1, (0, 1)), plain('L', 'gauss', 2, (1, 2))), plain('K', 'gauss', 1)),
]

def case(item):
    i, d = item
    key = repr(d)
    res = dict(key=key, idx=i, viol=[], unconfirmed=[], q=dict(exact_unsat=0, margin_unsat=0, sat=0, unknown=0, trivial=0), status='ok', nontrivial=False)
    with treelog.set(treelog.NullLog()):
        try:
            S = build(d)
        except Exception as ex:
            res['status'] = f'build:{type(ex).__name__}'; return res
        E = elements(d)
        f, spec = integrand(d)
        npoints = sum(len(p) for _, p in E)
        if S.nelems != len(E) or S.npoints != npoints:
            res['viol'].append((f'{key}: sample reports {S.nelems} elements / {S.npoints} points, the construction defines {len(E)} / {npoints}', dict(sample=i, kind='count'))); return res
        # index partition (concrete)
        idx = [numpy.asarray(S.getindex(k)) for k in range(S.nelems)]
        allidx = numpy.concatenate(idx) if idx else numpy.zeros(0, int)
        if sorted(allidx.tolist()) != list(range(npoints)) or any(len(ix) != len(p) for ix, (_, p) in zip(idx, E)):
            res['viol'].append((f'{key}: getindex does not partition the point numbering: {[ix.tolist() for ix in idx]}', dict(sample=i, kind='index'))); return res
        try:
            eI = S.integral(f).lower(function.LowerArgs.empty())
            eP = S.bind(f).lower(function.LowerArgs.empty())
            fI = sym_compile(ev.Tuple((eI, eP)))
        except Exception as ex:
            res['viol'].append((f'{key}: lowering integral/bind raised {type(ex).__name__}: {ex}'[:300], dict(sample=i, kind='lower'))); return res
        def run():
            cv = {n: SArray.symbolic(n, shape) for n, shape in spec.items()}
            I, P = fI(cv)
            refP = numpy.empty(npoints, object)
            refI = lift(0.)
            for (e, pts), ix in zip(E, idx):
                for (xi, w), gi in zip(pts, ix):
                    v = ref_value(cv, e, xi)
                    refP[gi] = v; refI = refI + v * w
            return SArray.wrap(refI, 'f'), SArray(refP, 'f'), SArray.wrap(I), SArray.wrap(P), cv, list(ctx().defined)
        try:
            paths, _ = with_timeout(200, lambda: explore(run, max_paths=4, timeout_ms=10000))
        except Timeout:
            res['status'] = 'timeout'; return res
    P_ = paths[0]
    if P_.tag != 'ok':
        res['status'] = P_.tag; res['note'] = str(P_.value)[:100]; return res
    refI, refP, I, Pv, cv, d0 = P_.value
    for label, a, b in (('integral', refI, I), ('eval', refP, Pv)):
        if solve.structure(a)[1] != solve.structure(b)[1]:
            res['viol'].append((f'{key}: {label} has shape {b.shape}, expected {a.shape}', dict(sample=i, kind='shape'))); continue
        v = solve.equiv(a, b, pc=P_.pc, defined=d0, side=P_.side, timeout_ms=15000, margin=1e-9, budget_s=60)
        for kk, n in v.counts().items(): res['q'][kk] += n
        detail = ''
        for j, m in v.models[:2]:
            cc = {n: numpy.asarray(x) for n, x in solve.concretize(m, cv).items()}
            ok, detail = replay(d, cc)
            if ok:
                res['viol'].append((f'{key}: {label} differs from sum of weight*value / point order of the construction: {detail}'[:600], dict(sample=i, kind='value', coefficients=tv.tolist(cc)))); break
        else:
            if v.models: res['unconfirmed'].append(f'{key} {label}: model did not reproduce ({detail})')
    res['nontrivial'] = res['q']['exact_unsat'] + res['q']['margin_unsat'] + res['q']['sat'] > 0
    return res

def replay(d, cc):
    '''real code with real numpy'''
    with treelog.set(treelog.NullLog()):
        S = build(d); E = elements(d); f, spec = integrand(d)
        args = {n: numpy.asarray(cc[n], dtype=float) for n in spec}
        try:
            I = S.integrate(f, arguments=args); P = S.eval(f, arguments=args)
        except Exception as ex:
            return True, f'raised {type(ex).__name__}: {ex}'
        idx = [numpy.asarray(S.getindex(k)) for k in range(S.nelems)]
        refP = numpy.zeros(S.npoints); refI = 0.
        for (e, pts), ix in zip(E, idx):
            for (xi, w), gi in zip(pts, ix):
                v = 1.
                for m, ie in e.items(): v *= float(numpy.dot(args['c' + m][ie], monomials(xi[m])))
                refP[gi] = v; refI += v * w
    if not numpy.allclose(P, refP, rtol=1e-10, atol=1e-12): return True, f'eval gives {numpy.asarray(P).tolist()}, construction gives {refP.tolist()}'
    if not numpy.allclose(I, refI, rtol=1e-10, atol=1e-12): return True, f'integrate gives {float(I)}, sum of weight*value gives {refI}'
    return False, 'agree'

def main(argv=None):
    args = harness.parse_args(PID, argv)
    if args.replay:
        import json
        d = json.load(open(args.replay))['replay']
        if d.get('kind') == 'points':
            from checks import c09_points
            ok, detail = c09_points.replay((d['case'][0], tuple(d['case'][1]) if isinstance(d['case'][1], list) else d['case'][1]), None); print('REPRODUCED' if ok else 'not reproduced', detail); return 1 if ok else 0
        S = SAMPLES[d['sample']]
        if d.get('coefficients'): ok, detail = replay(S, {k: numpy.array(v) for k, v in d['coefficients'].items()})
        else:
            r = case((d['sample'], S)); ok, detail = bool(r['viol']), str(r['viol'][:1])
        print('REPRODUCED' if ok else 'not reproduced', detail); return 1 if ok else 0
    run = harness.Run(PID, 'translation_validation', args,
        'For each sample construction the real Sample.integral and Sample.bind are lowered, compiled and run on z3-symbolic per-element coefficients of the integrand; the reference enumerates '
        '(element, local point, weight) from the definition of the construction (products = outer products, unions = concatenation, take/subset = selection, custom index = renumbering) and sums weight*value / '
        'lists values in the order getindex advertises.  z3 decides equality for ALL coefficient values (every point value is a distinct linear form, so a lost, duplicated, re-weighted or permuted point changes a coefficient).')
    run.stubs = STUBS + ['reference elements\' point tables (coords, weights) are environment data taken from Reference.getpoints']
    run.assumptions = ['declined: exactness of Gauss schemes for polynomials, points inside the element, weights summing to the volume (finite floating point facts about tables)', 'declined: trimmed mosaics, located samples and Sample.zip (numeric geometry)',
                       'Gauss weights folded in binary64 by nutils: decided by a 1e-9 relative margin on the coefficient box [-8,8] when the exact query is sat']
    S = list(enumerate(SAMPLES))
    if args.tier == 'thorough':
        extra = []
        for m, scheme, deg in itertools.product('LKQT', ('gauss', 'uniform', 'bezier'), (1, 2, 3, 4)):
            if scheme == 'bezier' and deg < 2: continue
            extra.append(plain(m, scheme, deg))
        for a, b in itertools.permutations([plain('L', 'gauss', 2), plain('K', 'gauss', 1), plain('Q', 'uniform', 1), plain('T', 'gauss', 2)], 2):
            extra.append(('mul', a, b))
        SAMPLES.extend(extra); S = list(enumerate(SAMPLES))
    if args.only: S = [s for s in S if args.only in repr(s[1])]
    run.bounds = dict(samples=len(S), nesting_depth='<= 2', meshes='2 and 3 line elements, 2x1 squares, 2 triangles', integrand='product over spaces of (coefficients[element] . [1, xi...])')
    with harness.FuncTrace() as ft:
        case(S[0])
    run.functions = {n for n in ft.names if 'sample' in n or 'points' in n or 'function' in n}
    # vacuity twin: dropping one point must be noticed
    d = plain('L', 'gauss', 2); E = elements(d); f, spec = integrand(d)
    with treelog.set(treelog.NullLog()):
        fI = sym_compile(build(d).integral(f).lower(function.LowerArgs.empty()))
    def tw():
        cv = {n: SArray.symbolic(n, shape) for n, shape in spec.items()}
        refI = lift(0.)
        for e, pts in E:
            for xi, w in pts[1:]: refI = refI + ref_value(cv, e, xi) * w
        return SArray.wrap(refI, 'f'), SArray.wrap(fI(cv))
    paths, _ = explore(tw); a, b = paths[0].value; run.twin(solve.equiv(a, b, margin=1e-9).sat > 0)
    for res in harness.pmap(case, S, args.jobs, chunksize=1):
        if 'harness_error' in res:
            run.counters['worker_error'] += 1
            if run.counters['worker_error'] <= 5: run.inconclusive.append('worker error: ' + res['harness_error'][:600])
            continue
        run.counters[res['status']] += 1
        run.case(res['key'], res['nontrivial']); run.add_queries(res['q'])
        if res['status'] != 'ok': run.unconfirmed(res['key'], res['status'] + ' ' + res.get('note', ''))
        for what, rp in res['viol']: run.violation(f'sample:{res["key"]}:{rp["kind"]}', what, rp)
        for u in res['unconfirmed']: run.unconfirmed(res['key'], u)
        if res['nontrivial']: run.sample(dict(sample=res['key'], queries=res['q']), limit=10)
    # point-set algebra: tensor / transformed / concatenated rules keep every weight next to the coordinate row it belongs to (symbolic coordinates and weights)
    if not args.only or args.only == 'points':
        from checks import c09_points
        for c in c09_points.cases(args.tier):
            o = c09_points.run_case(c)
            run.case(o['label'], o['unsat'] > 0); run.queries['exact_unsat'] += o['unsat']; run.queries['unknown'] += o['unknown']; run.queries['sat'] += len(o['sat'])
            if o['errors'] or o['unknown']: run.unconfirmed(o['label'], f'{o["errors"][:1]} unknown={o["unknown"]}')
            if o['unsat']: run.sample(dict(obligation=o['label'], proved=o['unsat']), limit=24)
            for cex in o['sat']:
                ok, detail = c09_points.replay(c, cex)
                if ok: run.violation('points:' + o['label'], f'{o["label"]}: {cex["detail"]}: {detail}'[:500], dict(kind='points', case=[c[0], list(c[1]) if isinstance(c[1], tuple) else c[1]])); break
                else: run.unconfirmed(o['label'], f'{cex["detail"]}: not reproduced ({detail})')
        run.stubs.append('nutils.points.numpy -> symx.npproxy, nutils.points.types.frozenarray -> identity (point-set algebra on symbolic coordinates/weights); part rules are stub Points subclasses with symbolic data')
    return run.finish(dict(programs=run.cases, disagreements_checked=run.queries['sat'] + len(run.violations)))

if __name__ == '__main__':
    sys.exit(main())
