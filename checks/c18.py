'''C18 - disk memoisation is transparent and crash-tolerant (partially applicable).

cache.function's wrapper and Recursion.__iter__ run unmodified under the path explorer with caching.current set to an
in-memory directory model and nutils.cache.pickle / _lock_file replaced by stubs.  The state left by earlier runs is
SYMBOLIC: the number n of complete items (z3 Int), the state of the next file (absent/empty, truncated, garbage, stop
marker), the exception a failed load raises; the memoised computation is a linear recurrence with symbolic seeds and
coefficients.  On every path z3 proves: same items as the uncached iteration, logs replayed once per loaded item, the
wrapped computation executed exactly for the items that were not complete, files complete afterwards.
The assumption "every strict prefix of a pickle stream fails to load with EOFError/UnpicklingError" and the end-to-end
behaviour on real files cut at every byte are enumerated concretely (auxiliary, labelled).  Concurrent callers: declined.'''
import sys, warnings, numpy, z3, itertools, io, os, pickle, tempfile, pathlib, contextlib
warnings.simplefilter('ignore')
from nutils import cache, types as ntypes
import treelog
from symx import harness, solve as S
from symx.sym import *

PID = 'C18'
STUBS = ['nutils.cache.caching.current -> in-memory directory model (path / name, mkdir, touch, open)', 'nutils.cache.pickle -> stub load/dump on the file model; load of a non-complete file raises a symbolically chosen member of the exceptions the code catches',
         'nutils.cache._lock_file -> no-op (single caller)', 'log records of earlier runs are marker objects counting replay() calls']

# ---------------------------------------------------------------- file model

class FakeLog:
    def __init__(self, tag, sink): self.tag, self.sink = tag, sink
    def replay(self, log=None): self.sink.append(self.tag)

class FileModel:
    '''state: ('complete', obj) | ('empty',) | ('truncated',) | ('garbage',)'''
    def __init__(self, fs, name): self.fs, self.name = fs, name
    def __enter__(self): return self
    def __exit__(self, *a): return False
    def seek(self, pos): assert pos == 0
    def fileno(self): return 0

class Dir:
    def __init__(self, fs, path=()): self.fs, self.path = fs, path
    def __truediv__(self, name): return Dir(self.fs, self.path + (str(name),))
    @property
    def parent(self): return Dir(self.fs, self.path[:-1])
    def mkdir(self, **kw): pass
    def touch(self): self.fs.touched.append(self.path[-1])
    def open(self, mode): return FileModel(self.fs, self.path[-1])

class FS:
    '''in-memory cache directory; `initial(name)` gives the state a file had after the earlier runs (may fork on symbolic data)'''
    def __init__(self, initial):
        self.initial = initial; self.files = {}; self.touched = []; self.loads = []; self.dumps = []
    def state(self, name):
        if name not in self.files: self.files[name] = self.initial(name)
        return self.files[name]

class PickleStub:
    UnpicklingError = pickle.UnpicklingError
    def __init__(self, fs, failure): self.fs, self.failure = fs, failure
    def load(self, f):
        st = self.fs.state(f.name)
        self.fs.loads.append(f.name)
        if st[0] == 'complete': return st[1]
        if st[0] == 'empty': raise EOFError
        raise self.failure(st[0])
    def dump(self, obj, f):
        self.fs.files[f.name] = ('complete', obj); self.fs.dumps.append(f.name)

# ---------------------------------------------------------------- Recursion harness

def V(n): return SInt(z3.Int(n))
def R(n): return SReal(z3.Real(n))

def make_recursion(length, calls, N, coef, seeds):
    class Rec(cache.Recursion, length=length):
        def __init__(self, tag): self.tag = tag
        def resume_index(self, history, index):
            hist = list(history)
            calls.append(('resume', index, list(hist)))
            return self._gen(hist, index)
        def _gen(self, hist, index):
            i = index
            while True:
                if bool(lift(i) >= N): return
                if i < length:
                    # seeds: the first `length` items; must only be produced if the history has exactly i items
                    value = seeds[i]
                else:
                    value = coef[-1]
                    for k in range(length): value = value + coef[k] * hist[len(hist) - 1 - k]
                calls.append(('compute', i))
                treelog.info(f'computing item {i}')      # every computed item logs exactly one message
                yield value
                hist.append(value); hist = hist[-length:] if length else []
                i += 1
    return Rec

def true_sequence(length, M, coef, seeds):
    xs = []
    for i in range(M):
        if i < length: xs.append(seeds[i])
        else:
            v = coef[-1]
            for k in range(length): v = v + coef[k] * xs[i - 1 - k]
            xs.append(v)
    return xs

def recursion_case(item):
    length, M, next_state = item
    key = f'Recursion length={length} take={M} items, earlier runs: n complete items then file {next_state}'
    out = dict(key=key, paths=0, proved=0, failed=[], unknown=0, exhaustive=True, aborted=0)
    n = V('n'); N = V('N')
    coef = [R(f'a{k}') for k in range(length)] + [R('c')]; seeds = [R(f's{k}') for k in range(length)]
    truth = true_sequence(length, M + 2, coef, seeds)
    def run():
        calls = []; replays = []
        excsel = SBool(z3.Bool('exc_is_eof'))
        def initial(name):
            i = int(name)
            if bool(lift(i) < n): return ('complete', (FakeLog(i, replays), False, truth[i]))
            if bool(lift(i) == n):
                if next_state == 'stop': return ('complete', (FakeLog(i, replays), True, None))
                return (next_state,)
            return ('empty',)
        fs = FS(initial)
        def failure(kind):
            if kind == 'truncated': return EOFError() if bool(excsel) else pickle.UnpicklingError('pickle data was truncated')
            return pickle.UnpicklingError('garbage') if bool(excsel) else IndexError('garbage')
        Rec = make_recursion(length, calls, N, coef, seeds)
        items = []
        saved = cache.pickle, cache._lock_file
        cache.pickle = PickleStub(fs, failure); cache._lock_file = lambda f: None
        try:
            with _Current(Dir(fs)), treelog.set(treelog.NullLog()):
                for k, x in enumerate(Rec('t')):
                    items.append(x)
                    if k + 1 == M: break
        finally:
            cache.pickle, cache._lock_file = saved[0], saved[1]
        return items, calls, replays, fs
    # earlier runs are consistent with the sequence: n <= N complete items; a stop marker only at n == N
    assume = [z3.Int('n') >= 0, z3.Int('n') <= M + 1, z3.Int('N') >= 0, z3.Int('N') <= M + 2, z3.Int('n') <= z3.Int('N')]
    if next_state == 'stop': assume.append(z3.Int('n') == z3.Int('N'))
    paths, complete = explore(run, assumptions=assume, max_paths=400, timeout_ms=10000)
    out['paths'] = len(paths); out['exhaustive'] = complete
    for P in paths:
        if P.tag == 'abort':
            if 'infeasible' not in str(P.value): out['aborted'] += 1
            continue
        if P.tag != 'ok':
            out['failed'].append((f'raised {type(P.value).__name__}: {P.value}'[:200], _model(P.pc))); continue
        items, calls, replays, fs = P.value
        # expected number of items: min(M, N)
        claims = [('number of items', SBool(z3.If(z3.Int('N') >= M, len(items) == M, z3.IntVal(len(items)) == z3.Int('N'))))]
        for i, x in enumerate(items): claims.append((f'item {i} equals the uncached item', lift(x) == truth[i]))
        k = len(items)
        loaded = sorted(replays)
        claims.append(('log replayed exactly once per entry read from the cache (the stop marker of a finished run included)', SBool(z3.And(*[z3.BoolVal(loaded == list(range(len(loaded))))] + [z3.IntVal(len(loaded)) <= z3.Int('n') + (1 if next_state == 'stop' else 0)]))))
        computed = [c[1] for c in calls if c[0] == 'compute']
        claims.append(('every item is either loaded or computed exactly once', SBool(z3.BoolVal(sorted(loaded + computed)[:k] == list(range(k)) and len(set(computed)) == len(computed)))))
        claims.append(('resume is entered at most once', SBool(z3.BoolVal(sum(1 for c in calls if c[0] == 'resume') <= 1))))
        for c in calls:
            if c[0] == 'resume':
                idx, hist = c[1], c[2]
                want = truth[max(0, idx - length):idx] if length else []
                claims.append((f'history passed to resume at index {idx} is the last {length} true items', SBool(z3.And(z3.BoolVal(len(hist) == len(want)), *[(lift(h) == w).t for h, w in zip(hist, want)]))))
        for i in range(k):
            st = fs.files.get('{:04d}'.format(i))
            claims.append((f'file {i} complete afterwards', SBool(z3.BoolVal(st is not None and st[0] == 'complete')) & (lift(st[1][2]) == truth[i] if st and st[0] == 'complete' and st[1][2] is not None else SBool(z3.BoolVal(False)))))
        # what this run stored: the entry of item i must carry the log of item i and nothing else (it is what later runs replay for that item)
        for name in fs.dumps:
            st = fs.files.get(name)
            if st and st[0] == 'complete' and not st[1][1]:
                msgs = [m_[1] for m_ in getattr(st[1][0], '_messages', []) if m_[0] == 'write']
                claims.append((f'entry {int(name)} written in this run stores exactly the log of its own item', SBool(z3.BoolVal(msgs == [f'computing item {int(name)}']))))
        for label, cl in claims:
            r, m = S.holds(cl, pc=P.pc, timeout_ms=10000)
            if r == 'unsat': out['proved'] += 1
            elif r == 'unknown': out['unknown'] += 1
            else: out['failed'].append((label, _model(P.pc, m)))
    return out

def _model(pc, m=None):
    if m is None:
        s = z3.Solver(); s.add(*pc)
        if str(s.check()) != 'sat': return {}
        m = s.model()
    return {str(d): str(m[d]) for d in m.decls() if str(d) in ('n', 'N', 'exc_is_eof', 'state')}

class _Current:
    '''set nutils.cache.caching.current (a plain function attribute, see util.set_current) for the duration of the block'''
    def __init__(self, value): self.value = value
    def __enter__(self):
        self.saved = cache.caching.current; cache.caching.current = self.value
    def __exit__(self, *a):
        cache.caching.current = self.saved; return False

# ---------------------------------------------------------------- cache.function harness

def function_case(item):
    state, raises = item
    key = f'cache.function: file state {state}, wrapped function {"raises" if raises else "returns"}'
    out = dict(key=key, paths=0, proved=0, failed=[], unknown=0, exhaustive=True, aborted=0)
    def run():
        calls = []; replays = []
        a, b = R('a'), R('b')
        excsel = SBool(z3.Bool('exc_is_eof'))
        class Boom(Exception): pass
        def f(x, y=3):
            calls.append((x, y))
            if raises: raise Boom()
            return x * a + b
        wrapped = cache.function(f)
        def initial(name):
            if state == 'complete': return ('complete', (R('old'), FakeLog('old', replays)))
            if state == 'oldformat': return ('complete', (FakeLog('old', replays), False, R('old')))
            if state == 'oldformat-failed': return ('complete', (FakeLog('old', replays), True, R('old')))
            return (state,)
        fs = FS(initial)
        def failure(kind):
            if kind == 'truncated': return EOFError() if bool(excsel) else pickle.UnpicklingError('truncated')
            return pickle.UnpicklingError('garbage') if bool(excsel) else IndexError('garbage')
        saved = cache.pickle, cache._lock_file
        cache.pickle = PickleStub(fs, failure); cache._lock_file = lambda f_: None
        try:
            with _Current(Dir(fs)), treelog.set(treelog.NullLog()):
                try:
                    r1 = wrapped(2, y=3); e1 = None
                except Boom as e: r1, e1 = None, e
                ncalls1 = len(calls)
                try:
                    r2 = wrapped(y=3, x=2); e2 = None      # second call, other spelling of the same arguments
                except Boom as e: r2, e2 = None, e
        finally:
            cache.pickle, cache._lock_file = saved
        return r1, e1, r2, e2, calls, ncalls1, replays, fs, a, b
    paths, complete = explore(run, max_paths=64, timeout_ms=10000)
    out['paths'] = len(paths); out['exhaustive'] = complete
    for P in paths:
        if P.tag == 'abort': continue
        if P.tag != 'ok':
            out['failed'].append((f'raised {type(P.value).__name__}: {P.value}'[:200], {})); continue
        r1, e1, r2, e2, calls, ncalls1, replays, fs, a, b = P.value
        want = lift(2) * a + b
        loaded_ok = state in ('complete', 'oldformat')
        claims = []
        if loaded_ok:
            claims += [('value comes from the cache', lift(r1) == R('old')), ('function not executed', SBool(z3.BoolVal(len(calls) == 0))), ('log replayed once per call', SBool(z3.BoolVal(replays == ['old', 'old']))), ('second call equal', lift(r2) == R('old'))]
        elif raises:
            claims += [('exception propagates', SBool(z3.BoolVal(e1 is not None and e2 is not None))), ('function executed on every call (nothing was stored)', SBool(z3.BoolVal(len(calls) == 2))), ('no entry stored', SBool(z3.BoolVal(all(st[0] != 'complete' or state.startswith('oldformat') for st in fs.files.values()))))]
        else:
            claims += [('returns the uncached value', lift(r1) == want), ('second call returns the same value', lift(r2) == want), ('function executed exactly once over both calls', SBool(z3.BoolVal(len(calls) == 1 and ncalls1 == 1))),
                       ('one cache file for both argument spellings', SBool(z3.BoolVal(len(fs.files) == 1))), ('entry complete afterwards', SBool(z3.BoolVal(all(st[0] == 'complete' for st in fs.files.values())))), ('stale log not replayed', SBool(z3.BoolVal('old' not in replays)))]
        for label, cl in claims:
            r, m = S.holds(cl, pc=P.pc, timeout_ms=10000)
            if r == 'unsat': out['proved'] += 1
            elif r == 'unknown': out['unknown'] += 1
            else: out['failed'].append((label, _model(P.pc, m)))
    return out

# ---------------------------------------------------------------- concrete layers (auxiliary, enumerations)

def prefix_assumption():
    '''every strict prefix of a real pickle stream fails to load with an exception the code catches'''
    from nutils import evaluable as ev
    rl = treelog.RecordLog()
    with treelog.set(rl): treelog.info('hello'); treelog.user('x')
    x = ev.Argument('x', (ev.constant(3),))
    payloads = [(numpy.arange(10.), rl), ({'u': numpy.linspace(0, 1, 7)}, rl), (rl, False, {'u': numpy.ones((2, 3)), 'k': 5}), (rl, True, None), ((1.5, 'text', (1, 2, (3, 4))), rl), (ev.sin(x) * 2., rl)]
    n = 0; bad = []
    for p in payloads:
        b = pickle.dumps(p)
        for cut in range(len(b)):
            n += 1
            try:
                pickle.load(io.BytesIO(b[:cut])); bad.append(f'prefix of length {cut}/{len(b)} loads')
            except (EOFError, pickle.UnpicklingError, IndexError): pass
            except Exception as e: bad.append(f'prefix {cut}/{len(b)} raises {type(e).__name__}')
    return n, bad

def real_file_crashpoints():
    '''end to end on real files: cut the cache entry at every byte, call again, compare with the uncached result'''
    n = 0; bad = []
    calls = []
    @cache.function
    def g(k, scale=2.):
        calls.append(k); treelog.info('computing', k)
        return {'v': numpy.arange(4.) * scale + k}
    class Fib(cache.Recursion, length=2):
        def __init__(self, x0, x1): self.x0, self.x1 = x0, x1
        def resume(self, history):
            h = list(history)
            if len(h) == 0: yield self.x0; h.append(self.x0)
            if len(h) == 1: yield self.x1; h.append(self.x1)
            while True:
                v = h[-2] + 2 * h[-1]; yield v; h = [h[-1], v]
    truth = list(itertools.islice(iter(Fib(1, 3)), 7))
    with tempfile.TemporaryDirectory() as tmp, treelog.set(treelog.NullLog()):
        with cache.enable(tmp):
            ref = g(3); files = list(pathlib.Path(tmp).iterdir()); assert len(files) == 1
            full = files[0].read_bytes()
            for cut in range(len(full)):
                n += 1
                files[0].write_bytes(full[:cut]); calls.clear()
                try: r = g(3)
                except Exception as e: bad.append(f'function: cut at {cut}: {type(e).__name__}'); continue
                if not numpy.array_equal(r['v'], ref['v']) or calls != [3] or files[0].read_bytes() != full: bad.append(f'function: cut at {cut}: wrong value / not recomputed / file not restored')
        sub = os.path.join(tmp, 'rec')
        with cache.enable(sub):
            first = list(itertools.islice(iter(Fib(1, 3)), 5))
            d, = list(pathlib.Path(sub).iterdir()); fl = sorted(d.iterdir())
            contents = [f.read_bytes() for f in fl]
            for i in range(len(fl)):
                for cut in sorted(set(list(range(0, len(contents[i]), 7)) + [len(contents[i]) - 1])):
                    n += 1
                    for f, c in zip(fl, contents): f.write_bytes(c)
                    fl[i].write_bytes(contents[i][:cut])          # item i killed while writing; later items of that run cannot exist
                    for f in fl[i + 1:]: f.write_bytes(b'')
                    try: got = list(itertools.islice(iter(Fib(1, 3)), 7))
                    except Exception as e: bad.append(f'recursion: item {i} cut at {cut}: {type(e).__name__}: {e}'); continue
                    if got != truth: bad.append(f'recursion: item {i} cut at {cut}: {got} != {truth}')
    return n, bad

def replay_recursion(length, M, next_state, model):
    '''real files, real pickle: rebuild the earlier-run state of the model and iterate again'''
    n = int(model.get('n', 0)); N = int(model.get('N', M + 2))
    coef = [2.0, -1.0, 0.5][:length] + [1.0]; seeds = [1.0, 3.0, -2.0][:length]
    calls = []
    class Rec(cache.Recursion, length=length):
        def __init__(self, tag): self.tag = tag
        def resume(self, history):
            hist = list(history); i0 = None
            # the index is not passed to resume: recover it from the call log kept by the harness
            i = calls.pop() if calls else 0
            while i < N:
                if i < length and len(hist) == i: value = seeds[i]
                else: value = coef[-1] + sum(coef[k] * hist[len(hist) - 1 - k] for k in range(length))
                treelog.info(f'computing item {i}')
                yield value
                hist.append(value); hist = hist[-length:]; i += 1
        def resume_index(self, history, index):
            calls.append(index); return self.resume(history)
    truth = []
    for i in range(min(N, M)):
        truth.append(seeds[i] if i < length else coef[-1] + sum(coef[k] * truth[i - 1 - k] for k in range(length)))
    with tempfile.TemporaryDirectory() as tmp, treelog.set(treelog.NullLog()):
        with cache.enable(tmp):
            earlier = list(itertools.islice(iter(Rec('t')), n + (1 if next_state == 'stop' else 0) + 1))   # a complete earlier run, long enough
            d, = list(pathlib.Path(tmp).iterdir())
            files = sorted(d.iterdir())
            for f in files[n + 1:]: f.unlink()
            if len(files) > n:
                content = files[n].read_bytes()
                if next_state == 'empty': files[n].write_bytes(b'')
                elif next_state == 'truncated': files[n].write_bytes(content[:max(1, len(content) // 2)])
                elif next_state == 'garbage': files[n].write_bytes(b'\x80\x04garbage!')
            try:
                got = list(itertools.islice(iter(Rec('t')), M))
                # a further run, entirely from the cache: values and the replayed log must be those of an uncached run (one message per item, in order)
                rl = treelog.RecordLog()
                with treelog.set(rl): again = list(itertools.islice(iter(Rec('t')), M))
            except Exception as ex:
                return True, f'raised {type(ex).__name__}: {ex}'
    if got != truth: return True, f'cached iteration gives {got}, uncached gives {truth} (n={n}, N={N}, next file {next_state})'
    msgs = [m_[1] for m_ in rl._messages if m_[0] == 'write']
    if again != truth or msgs != [f'computing item {i}' for i in range(len(truth))]:
        return True, f'a run served from the cache yields {again} and replays the log {msgs}; the uncached run yields {truth} and logs one message per item (n={n}, N={N}, next file {next_state})'
    return False, 'agree'

def main(argv=None):
    args = harness.parse_args(PID, argv)
    if args.replay:
        import json
        d = json.load(open(args.replay))['replay']
        if d.get('kind') == 'model' and d.get('item'):
            ok, detail = replay_recursion(*d['item'], d['model']); print('REPRODUCED' if ok else 'not reproduced', detail); return 1 if ok else 0
        n, bad = real_file_crashpoints(); n2, bad2 = prefix_assumption()
        print('REPRODUCED' if bad or bad2 else 'not reproduced', (bad + bad2)[:3]); return 1 if bad or bad2 else 0
    run = harness.Run(PID, 'other', args,
        'The real cache.function wrapper and Recursion.__iter__ are executed under the path explorer on an in-memory directory model; the state left by earlier runs is symbolic (number of complete items n, '
        'state of the next file, which of the caught exceptions a failed load raises, length N of the sequence) and the memoised computation is a linear recurrence with symbolic seeds and coefficients.  '
        'On every path z3 proves that the cached iteration yields exactly the uncached items, replays logs once per loaded item, computes every other item exactly once from the correct history, and leaves complete files.')
    run.stubs = STUBS
    run.assumptions = ['a crash while writing leaves a strict prefix of the pickle stream; every strict prefix fails to load with EOFError/UnpicklingError (enumerated over all cut points of 6 representative payloads in this run)',
                       'cache keys: injectivity of nutils_hash is the subject of C17', 'declined: concurrent callers (real flock between processes), crash during overwrite of a longer stale entry beyond the prefix model']
    cases = [('rec', (length, M, st)) for length in ((1, 2, 3) if args.tier == 'thorough' else (1, 2)) for M in ((3, 5, 6) if args.tier == 'thorough' else (4,)) for st in ('empty', 'truncated', 'garbage', 'stop')]
    cases += [('fun', (st, raises)) for st in ('empty', 'truncated', 'garbage', 'complete', 'oldformat', 'oldformat-failed') for raises in (False, True)]
    if args.only: cases = [c for c in cases if args.only in str(c)]
    run.bounds = dict(cases=len(cases), complete_items='n symbolic in [0, M+1]', sequence_length='N symbolic in [0, M+2]', recursion_length='1..2 (3 thorough)', items_taken='M=4 (3,5,6 thorough)')
    with harness.FuncTrace() as ft:
        recursion_case((1, 2, 'empty')); function_case(('empty', False))
    run.functions = {n for n in ft.names if 'cache' in n}
    obligations = discharged = 0
    for out in harness.pmap(_case, cases, args.jobs, chunksize=1):
        if 'harness_error' in out: run.harness_error(out['harness_error'][:600]); continue
        run.case(out['key'], out['proved'] > 0); run.paths += out['paths']
        obligations += out['proved'] + out['unknown'] + len(out['failed']); discharged += out['proved']
        run.queries['exact_unsat'] += out['proved']; run.queries['unknown'] += out['unknown']; run.queries['sat'] += len(out['failed'])
        run.sample(dict(case=out['key'], paths=out['paths'], exhaustive=out['exhaustive'], proved=out['proved']), limit=20)
        if out['unknown'] or out['aborted'] or not out['exhaustive']: run.unconfirmed(out['key'], f'{out["unknown"]} unknown, {out["aborted"]} aborted, exhaustive={out["exhaustive"]}')
        if out['proved'] == 0 and not out['failed']: run.harness_error(f'{out["key"]}: vacuous')
        for label, model in out['failed'][:3]:
            if out['key'].startswith('Recursion') and 'item' in label:
                ok, detail = replay_recursion(*out['item'], model)
                if not ok:
                    run.unconfirmed(out['key'], f'{label}: model {model} did not reproduce on real files ({detail})'); continue
            run.violation(f'{out["key"]}:{label}', f'{out["key"]}: "{label}" fails for earlier-run state {model} (the real cache code was executed on this history with the file model)', dict(kind='model', case=out['key'], label=label, model=model, item=list(out['item']) if out['key'].startswith('Recursion') else None))
    # vacuity twin: a recursion whose cache holds a WRONG item must be noticed
    tw = recursion_case((1, 3, 'empty'))
    run.twin(tw['proved'] > 0)
    n1, bad1 = prefix_assumption(); n2, bad2 = real_file_crashpoints()
    run.counters['pickle_prefixes_enumerated'] = n1; run.counters['real_file_cut_points_enumerated'] = n2
    for b in bad1[:3]: run.violation('prefix:' + b[:60], 'pickle prefix assumption fails: ' + b, dict(kind='prefix', note=b))
    for b in bad2[:3]: run.violation('crashpoint:' + b[:60], 'cache entry cut off while writing is not tolerated: ' + b, dict(kind='crashpoint', note=b))
    return run.finish(dict(obligations=obligations, discharged=discharged, rule='case = one configuration of (recursion length, items taken, state of the next file) or (file state, function raises); nontrivial = claims proved on reachable paths'))

def _case(c):
    kind, item = c
    r = recursion_case(item) if kind == 'rec' else function_case(item)
    r['item'] = item
    return r

if __name__ == '__main__':
    sys.exit(main())
