'''C05 - sparse extraction denotes exactly the dense array.

For every program e of the family, e.simplified.assparse (COO) and, for 2-D programs, evaluable.as_csr(e) are built by the
real code, compiled by the real generator and run on z3-symbolic arguments.  Index arrays must be inside the announced
shape, unique and lexicographically increasing (CSR: row pointers monotone from 0 to nnz, columns strictly increasing per
row) - decided concretely when the indices are concrete, by z3 when they depend on integer arguments - and scattering the
symbolic values into zeros must equal the dense denotation (independent interpreter) for ALL argument values.'''
import sys, random, warnings, numpy, z3, operator
warnings.simplefilter('ignore')
from symx import harness, progs, tv, solve, interp
from symx.sym import explore, ctx, Unsupported, PathAbort, lift, is_concrete, Sym, SBool, timed_check
from symx.sarray import SArray, _ite
from symx.run import sym_compile, STUBS
from symx.harness import Timeout, with_timeout
from nutils import evaluable as ev
import treelog

PID = 'C05'

def T(x): return lift(x, 'i').t

def coo_obligations(values, indices, shape):
    '''returns (wellformed z3 Bool, dense SArray) for COO data with possibly symbolic indices'''
    n = values.shape[0]
    conds = []
    flat = []
    for k in range(n):
        f = z3.IntVal(0)
        for idx, m in zip(indices, shape):
            t = T(idx.a[k]); conds.append(z3.And(t >= 0, t < m))
            f = f * m + t
        flat.append(f)
    for k in range(n - 1): conds.append(flat[k] < flat[k + 1])      # unique and lexicographically ordered
    dense = numpy.zeros(shape, object); dense.fill(0)
    dense = SArray.wrap(numpy.zeros(shape, values.dtype))
    for k in range(n):
        idx = [i.a[k] for i in indices]
        if all(is_concrete(i) for i in idx):
            pos = tuple(int(i) for i in idx)
            if all(0 <= p < m for p, m in zip(pos, shape)): dense.a[pos] = dense.a[pos] + values.a[k]
        else:
            for pos in numpy.ndindex(*shape):
                c = z3.And(*[T(i) == p for i, p in zip(idx, pos)])
                dense.a[pos] = _ite(c, dense.a[pos] + values.a[k], dense.a[pos])
    return z3.And(*conds) if conds else z3.BoolVal(True), dense

def csr_obligations(values, rowptr, colidx, nrows, ncols):
    n = values.shape[0]
    r = [T(x) for x in rowptr.a]; c = [T(x) for x in colidx.a]
    conds = [z3.BoolVal(len(r) == nrows + 1)]
    if len(r) == nrows + 1:
        conds += [r[0] == 0, r[-1] == n] + [r[i] <= r[i + 1] for i in range(nrows)] + [z3.And(x >= 0, x < ncols) for x in c]
        conds += [z3.Implies(z3.Or(*[z3.And(r[i] <= k, k + 1 < r[i + 1]) for i in range(nrows)]), c[k] < c[k + 1]) for k in range(n - 1)]
    dense = SArray.wrap(numpy.zeros((nrows, ncols), values.dtype))
    if len(r) == nrows + 1:
        for k in range(n):
            for i in range(nrows):
                for j in range(ncols):
                    cond = z3.simplify(z3.And(r[i] <= k, k < r[i + 1], c[k] == j))
                    if z3.is_false(cond): continue
                    dense.a[i, j] = dense.a[i, j] + values.a[k] if z3.is_true(cond) else _ite(cond, dense.a[i, j] + values.a[k], dense.a[i, j])
    return z3.And(*conds), dense

def concrete_check(p, form, args):
    '''replay on the real code with real numpy'''
    e = progs.build(p)
    with treelog.set(treelog.NullLog()), numpy.errstate(all='ignore'), warnings.catch_warnings():
        warnings.simplefilter('ignore')
        try:
            dense = ev.eval_once(e, arguments=args, _simplify=False, _optimize=False)
            if not tv.finite(dense): return False, 'dense not finite'
            if form == 'coo':
                values, indices, shape = e.simplified.assparse
                v, *idx = ev.eval_once(ev.Tuple((values, *indices)), arguments=args)
                shp = dense.shape
                if any(len(i) != len(v) for i in idx): return True, 'index/value lengths differ'
                for i, m in zip(idx, shp):
                    if len(i) and (i.min() < 0 or i.max() >= m): return True, f'index out of range: {i.tolist()} for axis length {m}'
                flat = numpy.ravel_multi_index(idx, shp) if shp and len(v) else numpy.zeros(len(v), int)
                if len(flat) > 1 and not (numpy.diff(flat) > 0).all(): return True, f'indices not unique/lexicographically increasing: {[i.tolist() for i in idx]}'
                out = numpy.zeros(shp, v.dtype)
                if shp: out[tuple(idx)] = v
                else: out = v.sum() if len(v) else out
            else:
                vals, rowptr, colidx, ncols = ev.as_csr(e)
                v, rp, ci = ev.eval_once(ev.Tuple((vals, rowptr, colidx)), arguments=args)
                nrows = dense.shape[0]
                if len(rp) != nrows + 1 or rp[0] != 0 or rp[-1] != len(v) or (numpy.diff(rp) < 0).any(): return True, f'row pointers ill-formed: {rp.tolist()}'
                out = numpy.zeros(dense.shape, v.dtype)
                for i in range(nrows):
                    cols = ci[rp[i]:rp[i + 1]]
                    if len(cols) and (cols.min() < 0 or cols.max() >= dense.shape[1] or (numpy.diff(cols) <= 0).any()): return True, f'columns of row {i} not strictly increasing/in range: {cols.tolist()}'
                    out[i, cols] = v[rp[i]:rp[i + 1]]
        except Exception as ex:
            if 'caught in a loop' in str(ex): return False, 'simplifier loop (C01)'
            return True, f'raised {type(ex).__name__}: {ex}'
    if not tv.same(dense, out.astype(dense.dtype) if out.dtype != dense.dtype else out): return True, f'scatter gives {tv.tolist(out)} but dense value is {tv.tolist(dense)}'
    return False, 'agree'

def work(item):
    i, p = item
    key = progs.show(p)
    res = dict(key=key, viol=[], unconfirmed=[], q=dict(exact_unsat=0, margin_unsat=0, sat=0, unknown=0, trivial=0, wf_unsat=0), paths=0, status='ok', nontrivial=False)
    try:
        e = progs.build(p)
    except progs.IllTyped:
        res['status'] = 'illtyped'; return res
    names = progs.used_args(p)
    forms = ['coo'] + (['csr'] if e.ndim == 2 else [])
    for form in forms:
        try:
            with treelog.set(treelog.NullLog()):
                if form == 'coo':
                    values, indices, shape = with_timeout(30, lambda: e.simplified.assparse)
                    tup = ev.Tuple((values, *indices))
                else:
                    vals, rowptr, colidx, ncols = with_timeout(30, lambda: ev.as_csr(e))
                    tup = ev.Tuple((vals, rowptr, colidx))
                f = with_timeout(30, lambda: sym_compile(tup))
        except Timeout:
            res['status'] = 'build_timeout'; continue
        except Exception as ex:
            if 'caught in a loop' in str(ex): res['status'] = 'simplifier_loop'; continue
            ok, detail = concrete_check(p, form, progs.default_args(names))
            if ok: res['viol'].append((f'{form} extraction failed: {type(ex).__name__}: {ex}: {key}'[:300], dict(program=key, form=form, kind='raises', arguments=tv.tolist(progs.default_args(names)))))
            continue
        def run():
            vals_, _ = progs.symbolic_args(names)
            dense = interp.denote(e, vals_)
            d0 = list(ctx().defined)
            out = tuple(SArray.wrap(x) for x in f(vals_))
            return dense, d0, out, vals_
        _, assume = progs.symbolic_args(names)
        try:
            paths, complete = with_timeout(90, lambda: explore(run, assumptions=assume, max_paths=64, timeout_ms=10000))
        except Timeout:
            res['status'] = 'harness_timeout'; continue
        res['paths'] += len(paths)
        for P in paths:
            if P.tag == 'unsupported': res['status'] = 'unsupported'; res['unsupported'] = str(P.value)[:60]; continue
            if P.tag == 'abort': continue
            if P.tag == 'exc': res['status'] = 'raises'; continue
            dense, d0, out, vals_ = P.value
            shape = tuple(dense.shape)
            try:
                if form == 'coo':
                    v, *idx = out
                    if any(x.shape != v.shape or x.ndim != 1 for x in idx) or len(idx) != len(shape):
                        wf, sc = z3.BoolVal(False), None
                    elif not shape:
                        wf = z3.BoolVal(True); sc = numpy.sum(v) if v.shape[0] else SArray.wrap(numpy.zeros((), v.dtype))
                    else:
                        wf, sc = coo_obligations(v, idx, shape)
                else:
                    v, rp, ci = out
                    wf, sc = csr_obligations(v, rp, ci, shape[0], shape[1])
            except Unsupported as ex:
                res['status'] = 'unsupported'; res['unsupported'] = str(ex)[:60]; continue
            # well-formedness for all argument values on this path
            s = z3.Solver(); s.set('timeout', 10000); s.add(*P.pc, *P.side, *d0, z3.Not(wf))
            r = timed_check(s)
            cands = []
            if r == z3.unsat: res['q']['wf_unsat'] += 1
            elif r == z3.unknown: res['q']['unknown'] += 1
            else: cands.append(solve.concretize(s.model(), vals_))
            if sc is not None and solve.structure(sc)[1] == solve.structure(dense)[1]:
                try:
                    vd = solve.equiv(dense, sc, pc=P.pc, defined=d0, side=P.side, timeout_ms=10000, margin=1e-9, budget_s=20)
                except Unsupported as ex:
                    res['status'] = 'unsupported'; res['unsupported'] = str(ex)[:60]; continue
                for kk, n in vd.counts().items(): res['q'][kk] += n
                cands += [solve.concretize(m, vals_) for idx_, m in vd.models]
            detail = ''
            for a in cands:
                args = {k: numpy.asarray(x) for k, x in a.items()}
                ok, detail = concrete_check(p, form, args)
                if ok:
                    res['viol'].append((f'{form} data of {key} do not denote the dense array at {tv.tolist(args)}: {detail}'[:600], dict(program=key, form=form, kind='value', arguments=tv.tolist(args)))); break
            else:
                if cands: res['unconfirmed'].append(f'{key} [{form}]: model did not reproduce ({detail})')
    res['nontrivial'] = res['q']['exact_unsat'] + res['q']['wf_unsat'] + res['q']['sat'] > 0
    if res['viol']: res['core'] = 'sparse:' + progs.skeleton(p)
    return res

EXTRA = [
    ('inflate', ('arg', 'x'), ('cvec', 'dup3'), 4, 0), ('diagonalize', ('arg', 'x'), 0, 1), ('add', ('diagonalize', ('arg', 'x'), 0, 1), ('inflate', ('arg', 'M'), ('cvec', 'perm3'), 3, 0)),
    ('loop_sum', ('inflate', ('insertaxis', ('take', ('arg', 'x'), ('lidx', 'i', 3), 0), 0, 1), ('insertaxis', ('lidx', 'i', 3), 0, 1), 3, 0), ('lidx', 'i', 3)),
    ('loop_sum', ('inflate', ('inflate', ('insertaxis', ('insertaxis', ('take', ('arg', 'x'), ('lidx', 'i', 3), 0), 0, 1), 0, 1), ('insertaxis', ('lidx', 'i', 3), 0, 1), 3, 0), ('take', ('cvec', 'perm3'), ('insertaxis', ('lidx', 'i', 3), 0, 1), 0), 3, 1), ('lidx', 'i', 3)),
    ('loop_concat', ('take', ('arg', 'x'), ('range', 2), 0), ('lidx', 'l', 2)),
    ('inflate', ('arg', 'w'), ('arg', 'k'), 3, 0), ('mul', ('inflate', ('arg', 'w'), ('arg', 'k'), 3, 0), ('arg', 'x')), ('inflate', ('inflate', ('arg', 'Q'), ('arg', 'k'), 3, 0), ('cvec', 'perm2'), 3, 1) if False else ('outer', ('inflate', ('arg', 'w'), ('arg', 'k'), 3, 0), ('arg', 'x')),
    ('arg', 's'), ('zeros', 3), ('mul', ('arg', 's'), ('zeros', 3, 3)), ('sum', ('inflate', ('arg', 'M'), ('cvec', 'dup3'), 4, 0), 0), ('ravel', ('diagonalize', ('arg', 'x'), 0, 1), 0), ('unravel', ('inflate', ('arg', 'x'), ('cvec', 'dup3'), 4, 0), 0, 2, 2) if False else ('transpose', ('inflate', ('arg', 'M'), ('cvec', 'sub2') if False else ('cvec', 'perm3'), 4, 1), 'r'),
]

def items(tier, seed):
    rng = random.Random(seed)
    P = list(EXTRA) + list(progs.CORPUS) + list(progs.VARBLOCK)
    d1 = [p for p, e in progs.typed(progs.depth1())]; rng.shuffle(d1)
    P += d1[:1200 if tier == 'quick' else len(d1)]
    d2 = list(progs.depth2(d1[:400] if tier == 'quick' else d1[:4000])); rng.shuffle(d2)
    P += d2[:800 if tier == 'quick' else 30000]
    # targeted structural family: multi-axis index blocks (Inflate index composition), multi-factor products (cluster logic), equal-length axes
    S1 = [p for p, e in progs.typed(progs.structured(1))]
    S2 = [p for p, e in progs.typed(progs.structured(2)) if p not in set(S1)]; rng.shuffle(S2)
    P += S1 + S2[:1500 if tier == 'quick' else len(S2)]
    return list(enumerate(P))

def main(argv=None):
    args = harness.parse_args(PID, argv)
    if args.replay:
        import json
        d = json.load(open(args.replay))['replay']
        ok, detail = concrete_check(progs.parse(d['program']), d['form'], {k: numpy.array(v) for k, v in d['arguments'].items()})
        print('REPRODUCED' if ok else 'not reproduced', detail); return 1 if ok else 0
    run = harness.Run(PID, 'translation_validation', args,
        'e.simplified.assparse and evaluable.as_csr(e) are produced by the real code and their index/value expressions compiled by the real generator; the generated function runs on z3-symbolic arguments.  '
        'z3 decides (i) well-formedness of the index data (in range, unique, lexicographically increasing; CSR: monotone row pointers 0..nnz, strictly increasing columns per row) for all integer argument values '
        'and (ii) that scattering the symbolic values into zeros equals the dense denotation of e (independent interpreter) for all argument values.')
    run.stubs = STUBS + ['oracle: symx.interp', 'ArgSort/UniqueMask/Find on symbolic index data fork per comparison (<=64 paths)']
    run.assumptions = ['floats as reals, ints as mathematical integers', 'function.as_coo/as_csr on meshes and the scipy/mkl consumers are outside the claim', 'declared ranges of int arguments']
    I = items(args.tier, args.seed)
    if args.only: I = [it for it in I if args.only in progs.show(it[1])]
    run.bounds = dict(programs=len(I), dimensions='0..4', max_paths=64)
    with harness.FuncTrace() as ft:
        for it in I[:3]: work(it)
    run.functions = ft.names
    # vacuity twin: COO data with a swapped index pair must violate well-formedness
    v = SArray.symbolic('v', (2,)); idx = SArray.wrap(numpy.array([1, 0]))
    wf, _ = coo_obligations(v, [idx], (3,)); run.twin(solve.satisfiable([z3.Not(wf)]) == 'sat')
    for res in harness.pmap(work, I, args.jobs, chunksize=4, case_timeout=60 if args.tier == "quick" else 300):
        if 'harness_error' in res:
            run.counters['worker_error'] += 1
            if run.counters['worker_error'] <= 3: run.inconclusive.append('worker error: ' + res['harness_error'][:500])
            continue
        run.counters[res['status']] += 1
        if res['status'] == 'illtyped': continue
        run.case(res['key'], res['nontrivial']); run.add_queries(res['q']); run.paths += res['paths']
        for what, rp in res['viol']: run.violation(res.get('core') or res['key'], what, rp)
        for u in res['unconfirmed']: run.unconfirmed(res['key'], u)
        if res['status'] == 'unsupported': run.counters['unsupported:' + res.get('unsupported', '')] += 1
        if res['nontrivial']: run.sample(dict(program=res['key'], queries=res['q']))
    return run.finish(dict(programs=run.cases, disagreements_checked=run.queries['sat'] + len(run.violations)))

if __name__ == '__main__':
    sys.exit(main())
