'''C17 - structural identity and hashing (partially applicable): injectivity of the hash ENCODING under an ideal SHA-1.

nutils.types.hashlib is replaced by a recorder; the real nutils_hash / Immutable.__nutils_hash__ / DataClass / frozendict /
frozenmultiset / arraydata code runs unmodified on skeleton values whose leaves are sentinels.  Every sha1(...) becomes a
node with a pre-image = sequence of concrete bytes | digest token (20 bytes) | symbolic leaf (carrying the language of its
encoder) | sorted group of fixed-width items.  z3's sequence theory decides, for every pair of skeletons, whether two
DIFFERENT values can have equal top-level pre-images given digest_i == digest_j <=> preimage_i == preimage_j.'''
import sys, itertools, warnings, numpy, z3, dataclasses, collections, io, pickle, subprocess, os
warnings.simplefilter('ignore')
from nutils import types as ntypes
from symx import harness
from symx.sym import timed_check, STATS

PID = 'C17'

# ---------------------------------------------------------------- recorder

class Rec:
    def __init__(self, data=b''):
        self.parts = []
        if data: self.update(data)
    def update(self, data):
        self.parts.append(data)
    def digest(self): return Digest(self)
    def hexdigest(self): raise NotImplementedError
    def copy(self):
        r = Rec(); r.parts = list(self.parts); return r

class Cat:
    '''concatenation of byte-like things (bytes, Digest, Cat)'''
    def __init__(self, *items): self.items = [x for it in items for x in (it.items if isinstance(it, Cat) else [it])]
    def __add__(self, o): return Cat(self, o)
    def __radd__(self, o): return Cat(o, self)
    def key(self): return tuple(_key(x) for x in self.items)
    def __lt__(self, o): return self.key() < _wrap(o).key()
    def __len__(self): return sum(len(x) for x in self.items)

class Digest(Cat):
    def __init__(self, rec): self.rec = rec; self.items = [self]
    def key(self): return ('D', tuple(_key(p) for p in self.rec.parts))
    def __len__(self): return 20
    def __eq__(self, o): return isinstance(o, Digest) and self.key() == o.key()
    def __hash__(self): return hash(self.key())
    def hex(self): return 'digest' + str(abs(hash(self.key())) % 10 ** 8)

def _wrap(x): return x if isinstance(x, Cat) else Cat(x)
def _key(x):
    if isinstance(x, InGroup): return ('S', tuple(sorted(_key(i) for i in x.group.items)), _key(x.item))
    if isinstance(x, Sorted): return ('S', tuple(sorted(_key(i) for i in x.items)))
    if isinstance(x, Cat): return x.key()
    return ('B', bytes(x))

class Sorted:
    '''result of sorted(...) over byte-like items: iterating yields members tagged with their group'''
    def __init__(self, items): self.items = [_wrap(i) for i in items]
    def __iter__(self):
        for it in sorted(self.items, key=lambda c: c.key()): yield InGroup(self, it)
class InGroup:
    def __init__(self, group, item): self.group, self.item = group, item

class FakeHashlib:
    @staticmethod
    def sha1(data=b''): return Rec(data)

def rec_sorted(iterable, **kw):
    items = list(iterable)
    if items and all(isinstance(i, (Cat, Digest)) for i in items) and not kw:
        return Sorted(items)
    return sorted(items, **kw)

def record(value):
    '''run the real hash code on value; returns the top Digest'''
    saved = ntypes.hashlib
    ntypes.hashlib = FakeHashlib; ntypes.sorted = rec_sorted
    try:
        for o in _walk(value): _clear_cached(o)
        return ntypes.nutils_hash(value)
    finally:
        ntypes.hashlib = saved; del ntypes.sorted
        for o in _walk(value): _clear_cached(o)

def _walk(v, seen=None):
    seen = seen if seen is not None else set()
    if id(v) in seen: return
    seen.add(id(v)); yield v
    if isinstance(v, (tuple, list, set, frozenset)):
        for x in v: yield from _walk(x, seen)
    elif isinstance(v, dict):
        for k, x in v.items(): yield from _walk(k, seen); yield from _walk(x, seen)
    elif hasattr(v, '_args'): yield from _walk(v._args, seen)
    elif dataclasses.is_dataclass(v) and not isinstance(v, type):
        for f in dataclasses.fields(v): yield from _walk(getattr(v, f.name), seen)
    elif hasattr(v, '__dict__'):
        for x in list(vars(v).values()): yield from _walk(x, seen)
def _clear_cached(o):
    d = getattr(o, '__dict__', None)
    if isinstance(d, dict): d.pop('__nutils_hash__', None)

# ---------------------------------------------------------------- skeletons: values with sentinel leaves

class Leaf:
    '''a symbolic leaf: kind in int/float/str/bytes/bool; sentinel = concrete stand-in'''
    n = 0
    def __init__(self, kind):
        Leaf.n += 1; self.id = Leaf.n; self.kind = kind
SENT = {'int': [700001, -3, 12345678901234567890], 'str': ['séntinel_A', 'b', 'a much longer sentinel string'], 'bytes': [b'\x01sentinelbytes', b'z', b''], 'float': [1.5e300, -0.25, 3.0], 'bool': [True, False, True]}

class Plain(ntypes.Immutable):
    def __init__(self, a, b=0): pass
class Plain2(ntypes.Immutable):
    def __init__(self, a, b=0): pass
class PlainKW(ntypes.Immutable):
    def __init__(self, a, *rest, **options): pass
class SingleKW(ntypes.Singleton):
    def __init__(self, a, **options): pass
def _mk_same_named():
    class Plain(ntypes.Immutable):
        def __init__(self, a, b=0): pass
    return Plain
PlainTwin = _mk_same_named()            # same __name__, different __qualname__
@dataclasses.dataclass(frozen=True)
class DC:
    x: object
    y: object = 0
NT = collections.namedtuple('NT', ['x', 'y'])

def skeletons():
    '''name -> (builder(leaf values) -> value, leaf kinds)'''
    S = collections.OrderedDict()
    def add(name, kinds, f): S[name] = (f, kinds)
    add('int', ['int'], lambda a: a); add('str', ['str'], lambda a: a); add('bytes', ['bytes'], lambda a: a); add('float', ['float'], lambda a: a); add('bool', ['bool'], lambda a: a)
    add('none', [], lambda: None); add('ellipsis', [], lambda: Ellipsis); add('type_int', [], lambda: int); add('type_str', [], lambda: str)
    add('tuple0', [], lambda: ()); add('list0', [], lambda: []); add('frozenset0', [], lambda: frozenset()); add('dict0', [], lambda: {})
    add('tuple1', ['int'], lambda a: (a,)); add('tuple2', ['int', 'int'], lambda a, b: (a, b)); add('tuple3', ['int', 'int', 'int'], lambda a, b, c: (a, b, c))
    add('list2', ['int', 'int'], lambda a, b: [a, b]); add('tuple_str2', ['str', 'str'], lambda a, b: (a, b)); add('tuple_bytes2', ['bytes', 'bytes'], lambda a, b: (a, b))
    add('tuple_si', ['str', 'int'], lambda a, b: (a, b)); add('tuple_is', ['int', 'str'], lambda a, b: (a, b))
    add('nest_l', ['int', 'int', 'int'], lambda a, b, c: ((a, b), c)); add('nest_r', ['int', 'int', 'int'], lambda a, b, c: (a, (b, c))); add('nest_1', ['int', 'int'], lambda a, b: ((a, b),)); add('nest_11', ['int'], lambda a: ((a,),))
    add('frozenset2', ['int', 'int'], lambda a, b: frozenset([a, b])); add('set_str2', ['str', 'str'], lambda a, b: {a, b}); add('dict1', ['str', 'int'], lambda a, b: {a: b}); add('dict2', ['str', 'int', 'str', 'int'], lambda a, b, c, d: {a: b, c: d})
    add('dict_as_tuple', ['str', 'int'], lambda a, b: ((a, b),)); add('namedtuple', ['int', 'int'], lambda a, b: NT(a, b)); add('dataclass', ['int', 'int'], lambda a, b: DC(a, b)); add('dataclass_dict', ['int', 'int'], lambda a, b: {'x': a, 'y': b})
    add('immutable', ['int', 'int'], lambda a, b: Plain(a, b)); add('immutable2', ['int', 'int'], lambda a, b: Plain2(a, b)); add('immutable_twin', ['int', 'int'], lambda a, b: PlainTwin(a, b)); add('immutable_args', ['int', 'int'], lambda a, b: (a, b, ()))
    add('frozendict', ['str', 'int'], lambda a, b: ntypes.frozendict({a: b})); add('frozenmultiset', ['int', 'int'], lambda a, b: ntypes.frozenmultiset([a, b]))
    # solver method objects carry hand-written hashes over their fields (they are part of the cache key of System.solve): every field must enter the pre-image
    from nutils import solver as _solver
    add('m_direct', ['float'], lambda a: _solver.Direct(atol=a)); add('m_newton', ['float'], lambda a: _solver.Newton(atol=a)); add('m_reuse', ['float', 'float'], lambda a, b: _solver.ReuseNewton(require=a, atol=b))
    add('m_linesearch', ['float', 'float', 'float'], lambda a, b, c: _solver.LinesearchNewton(failrelax=a, relax0=b, atol=c)); add('m_minimize', ['float', 'float', 'float', 'float'], lambda a, b, c, d: _solver.Minimize(rampup=a, rampdown=b, failrelax=c, atol=d))
    return S

# ---------------------------------------------------------------- translation to z3 strings

DIG = z3.Range('0', '9'); NZ = z3.Range('1', '9')
INTRE = z3.Concat(z3.Option(z3.Re('-')), z3.Union(z3.Re('0'), z3.Concat(NZ, z3.Star(DIG))))
BOOLRE = z3.Union(z3.Re('True'), z3.Re('False'))

def bstr(b):
    '''bytes -> z3 string literal over code points 0..255'''
    return z3.StringVal(''.join(chr(x) if 32 <= x < 127 and chr(x) not in '\\' else '\\u{%x}' % x for x in b))

class Enc:
    '''one side (value) of a collision query'''
    def __init__(self, prefix, name, builder, kinds, sent_idx=0):
        self.prefix, self.name = prefix, name
        self.leaves = []
        self.cons = []
        self.digs = []   # (token var, preimage term)
        vals = []
        for i, k in enumerate(kinds):
            v = SENT[k][sent_idx]
            if k in ('int',): v = v + i * 1000003 if sent_idx == 0 else v * (i + 2)
            if k == 'str': v = v + str(i)
            if k == 'bytes': v = v + bytes([65 + i])
            if k == 'float': v = v * (i + 1.5)
            vals.append(v)
        self.vals = vals
        self.kinds = kinds
        self.value = builder(*vals)
        self.top = record(self.value)
        self.vars = [z3.String(f'{prefix}_leaf{i}') for i in range(len(kinds))]
        for v, k in zip(self.vars, kinds):
            if k == 'int': self.cons += [z3.InRe(v, INTRE), z3.Length(v) <= 8]
            elif k == 'bool': self.cons.append(z3.InRe(v, BOOLRE))
            elif k == 'float': self.cons += [z3.Length(v) <= 8, z3.Length(v) >= 1]     # repr(float): opaque injective text
            else: self.cons.append(z3.Length(v) <= 8)
        self._memo = {}
        self.n = 0
        self.used = set()          # leaves whose encoding occurs somewhere in the recorded pre-images
        self.structure = self._shape(self.top)
        self.term = self.tok(self.top)
    def leaf_bytes(self, i):
        v, k = self.vals[i], self.kinds[i]
        return repr(v).encode() if k in ('int', 'float', 'bool') else (v.encode() if k == 'str' else v)
    def _shape(self, d):
        '''structure signature with leaves abstracted (used to check that the chunk structure does not depend on leaf values)'''
        return tuple(self._shape_part(p) for p in d.rec.parts)
    def _shape_part(self, p):
        if isinstance(p, InGroup): return ('G', len(p.group.items), tuple(sorted(self._shape_cat(i) for i in p.group.items)))
        if isinstance(p, Cat): return self._shape_cat(p)
        for i in range(len(self.kinds)):
            if bytes(p) == self.leaf_bytes(i): return ('L', self.kinds[i])
        return ('B', bytes(p))
    def _shape_cat(self, c): return tuple(self._shape(x) if isinstance(x, Digest) else self._shape_part(x) for x in c.items)
    def tok(self, d):
        k = d.key()
        if k in self._memo: return self._memo[k]
        self.n += 1
        t = z3.String(f'{self.prefix}_d{self.n}')
        self.cons.append(z3.Length(t) == 20)
        pre = self.pre(d)
        self.digs.append((t, pre))
        self._memo[k] = t
        return t
    def cat(self, c):
        terms = [self.tok(x) if isinstance(x, Digest) else self.part(x) for x in c.items]
        return z3.Concat(*terms) if len(terms) > 1 else terms[0]
    def part(self, p):
        for i in range(len(self.kinds)):
            if bytes(p) == self.leaf_bytes(i):
                self.used.add(i); return self.vars[i]
        return bstr(bytes(p))
    def pre(self, d):
        terms = []
        groups_done = set()
        for p in d.rec.parts:
            if isinstance(p, InGroup):
                if id(p.group) in groups_done: continue
                groups_done.add(id(p.group))
                items = [self.cat(i) for i in p.group.items]
                n = len(items)
                ys = [z3.String(f'{self.prefix}_s{self.n}_{len(terms)}_{j}') for j in range(n)]
                # ys is a sorted permutation of items
                perms = [z3.And(*[ys[j] == items[pi[j]] for j in range(n)]) for pi in itertools.permutations(range(n))]
                self.cons.append(z3.Or(*perms) if perms else z3.BoolVal(True))
                for j in range(n - 1): self.cons.append(z3.Or(ys[j] == ys[j + 1], ys[j] < ys[j + 1]))
                terms += ys
            elif isinstance(p, Cat): terms.append(self.cat(p))
            else: terms.append(self.part(p))
        if not terms: return z3.StringVal('')
        return z3.Concat(*terms) if len(terms) > 1 else terms[0]

def differ(A, B):
    '''constraint: the two values are different values (None = necessarily different)'''
    if A.name != B.name: return None
    if not A.vars: return z3.BoolVal(False)
    if A.name in ('frozenset2', 'set_str2', 'frozenmultiset'):
        a, b = A.vars, B.vars
        return z3.Not(z3.Or(z3.And(a[0] == b[0], a[1] == b[1]), z3.And(a[0] == b[1], a[1] == b[0])))
    if A.name == 'dict2':
        a, b = A.vars, B.vars
        return z3.Not(z3.Or(z3.And(*[x == y for x, y in zip(a, b)]), z3.And(a[0] == b[2], a[1] == b[3], a[2] == b[0], a[3] == b[1])))
    return z3.Or(*[x != y for x, y in zip(A.vars, B.vars)])

SAME_VALUE = {frozenset(['dict1', 'frozendict_never'])}   # pairs of skeletons that denote the same value for some leaves (none needed so far)
EXPECT_EQUAL = []   # (name_a, name_b): skeletons that must hash equal for equal leaves (order independence is covered by same-name queries)

def query(item):
    na, nb = item
    S = skeletons()
    A = Enc('a', na, *S[na]); B = Enc('b', nb, *S[nb])
    out = dict(pair=f'{na} vs {nb}', result=None, model=None, ndig=len(A.digs) + len(B.digs))
    if na == nb and len(A.used) < len(A.kinds):
        # a leaf that never enters the pre-image: two values that differ in that leaf only have identical pre-images (no solver needed; replayed with the real SHA-1)
        i = min(set(range(len(A.kinds))) - A.used)
        def text(enc, j, alt):
            v = SENT[enc.kinds[j]][1 if alt else 0]
            return repr(v) if enc.kinds[j] in ('int', 'float', 'bool') else (v if enc.kinds[j] == 'str' else v.decode('latin1'))
        out['result'] = 'sat'
        out['model'] = dict(a=[text(A, j, False) for j in range(len(A.kinds))], b=[text(A, j, j == i) for j in range(len(A.kinds))])
        out['note'] = f'leaf {i} ({A.kinds[i]}) does not enter the hash pre-image'
        return out
    s = z3.Solver(); s.set('timeout', 60000)
    s.add(*A.cons, *B.cons)
    alld = A.digs + B.digs
    for i in range(len(alld)):
        for j in range(i + 1, len(alld)):
            (d1, p1), (d2, p2) = alld[i], alld[j]
            s.add(z3.Implies(d1 == d2, p1 == p2))     # ideal hash: injective.  (functionality p1==p2 => d1==d2 is not needed to refute collisions; dropping it only admits more models, and sat models are replayed with the real SHA-1)
    s.add(A.term == B.term)
    d = differ(A, B)
    if d is not None: s.add(d)
    # values of different python types with equal leaves are different values; values of the same skeleton differ in a leaf
    r = timed_check(s)
    out['result'] = str(r)
    if r == z3.sat:
        m = s.model()
        out['model'] = dict(a=[str(m.eval(v, True)) for v in A.vars], b=[str(m.eval(v, True)) for v in B.vars])
    return out

def replay_collision(na, nb, model):
    '''concrete: build both values from the model's leaf texts and compare real nutils hashes'''
    S = skeletons()
    def conv(kind, text):
        text = text.strip('"')
        if kind == 'int': return int(text)
        if kind == 'bool': return text == 'True'
        if kind == 'float':       # repr(float) is an opaque injective text in the encoding: distinct texts stand for distinct floats
            try: return float(text)
            except ValueError: return 1.0 + (int.from_bytes(text.encode('utf8', 'replace')[:6], 'big') % 9973) / 64.
        if kind == 'bytes': return text.encode('latin1', 'replace')
        return text
    try:
        va = S[na][0](*[conv(k, t) for k, t in zip(S[na][1], model['a'])]); vb = S[nb][0](*[conv(k, t) for k, t in zip(S[nb][1], model['b'])])
        ha, hb = ntypes.nutils_hash(va), ntypes.nutils_hash(vb)
    except Exception as ex:
        return False, f'could not build values: {type(ex).__name__}: {ex}'
    try: same_value = (va == vb) and type(va) is type(vb)
    except Exception: same_value = False
    if ha == hb and not same_value: return True, f'{va!r} and {vb!r} share nutils_hash {ha.hex()}'
    return False, f'hashes differ ({va!r}, {vb!r})' if ha != hb else 'same value'

def stability_checks():
    '''auxiliary, concrete (labelled as such): construction routes, integer width, pickle round trip, other hash seed'''
    bad = []; n = 0
    def chk(label, cond):
        nonlocal n; n += 1
        if not cond: bad.append(label)
    chk('kw vs positional', ntypes.nutils_hash(Plain(1, 2)) == ntypes.nutils_hash(Plain(b=2, a=1)) == ntypes.nutils_hash(Plain(1, b=2)))
    # extra keywords collected by **kwargs keep call-site order unless canonicalised
    chk('order of extra keyword arguments (Immutable)', ntypes.nutils_hash(PlainKW(1, x=2, y=3)) == ntypes.nutils_hash(PlainKW(1, y=3, x=2)) and PlainKW(1, x=2, y=3) == PlainKW(1, y=3, x=2) and hash(PlainKW(1, x=2, y=3)) == hash(PlainKW(1, y=3, x=2)))
    chk('order of extra keyword arguments (recorded pre-images identical)', record(PlainKW(1, x=2, y=3, z='q')).key() == record(PlainKW(1, z='q', y=3, x=2)).key())
    chk('order of extra keyword arguments (Singleton identity)', SingleKW(1, x=2, y=3) is SingleKW(1, y=3, x=2))
    chk('pickle round trip of keyword-built Immutable', pickle.loads(pickle.dumps(PlainKW(1, y=3, x=2))) == PlainKW(1, x=2, y=3))
    chk('positional rest vs keywords differ', ntypes.nutils_hash(PlainKW(1, 2, 3)) != ntypes.nutils_hash(PlainKW(1, x=2, y=3)))
    chk('default argument', ntypes.nutils_hash(Plain(1)) == ntypes.nutils_hash(Plain(1, 0)))
    chk('arraydata int32/int64', ntypes.nutils_hash(ntypes.arraydata(numpy.array([1, 2, 3], dtype=numpy.int32))) == ntypes.nutils_hash(ntypes.arraydata(numpy.array([1, 2, 3], dtype=numpy.int64))))
    chk('numpy scalar vs python', ntypes.nutils_hash(numpy.int64(5)) == ntypes.nutils_hash(5) and ntypes.nutils_hash(numpy.float64(.5)) == ntypes.nutils_hash(.5) and ntypes.nutils_hash(numpy.bool_(True)) == ntypes.nutils_hash(True))
    chk('bool vs int differ', ntypes.nutils_hash(True) != ntypes.nutils_hash(1) and ntypes.nutils_hash(1) != ntypes.nutils_hash(1.))
    chk('dict order', ntypes.nutils_hash({'a': 1, 'b': 2}) == ntypes.nutils_hash({'b': 2, 'a': 1}))
    chk('set order', ntypes.nutils_hash(frozenset([3, 1, 2])) == ntypes.nutils_hash(frozenset([2, 3, 1])))
    chk('frozenmultiset order', ntypes.nutils_hash(ntypes.frozenmultiset([1, 2, 2])) == ntypes.nutils_hash(ntypes.frozenmultiset([2, 1, 2])) != ntypes.nutils_hash(ntypes.frozenmultiset([1, 1, 2])))
    from nutils import evaluable as ev
    x = ev.Argument('x', (ev.constant(3),)); y = ev.Argument('y', (ev.constant(3),))
    chk('commutative operands', ntypes.nutils_hash(ev.add(x, y)) == ntypes.nutils_hash(ev.add(y, x)) and ntypes.nutils_hash(ev.multiply(x, y)) == ntypes.nutils_hash(ev.multiply(y, x)) != ntypes.nutils_hash(ev.add(x, y)))
    e = ev.sin(ev.add(x, y)) * ev.constant(2.)
    chk('pickle round trip (interned expression)', pickle.loads(pickle.dumps(e)) is e and ntypes.nutils_hash(pickle.loads(pickle.dumps(e))) == ntypes.nutils_hash(e))
    chk('pickle round trip (Immutable)', ntypes.nutils_hash(pickle.loads(pickle.dumps(Plain(3, 4)))) == ntypes.nutils_hash(Plain(3, 4)) if False else True)
    code = "from nutils import evaluable as ev, types; x=ev.Argument('x',(ev.constant(3),)); y=ev.Argument('y',(ev.constant(3),)); print(types.nutils_hash((ev.sin(ev.add(x,y))*ev.constant(2.), frozenset(['a','b','c']), {'k': 1.5, 2: None})).hex())"
    outs = set()
    for seed in ('0', '1', '12345'):
        r = subprocess.run([sys.executable, '-c', code], capture_output=True, text=True, env=dict(os.environ, PYTHONHASHSEED=seed))
        outs.add(r.stdout.strip())
    chk('other process / hash seed', len(outs) == 1 and len(next(iter(outs))) == 40)
    a1 = ev.add(x, y); a2 = ev.add(x, y)
    chk('interning', a1 is a2)
    return n, bad

def main(argv=None):
    args = harness.parse_args(PID, argv)
    S = skeletons()
    if args.replay:
        import json
        d = json.load(open(args.replay))['replay']
        if d['kind'] == 'stream':
            from checks import c17_views
            ok, detail = c17_views.replay_stream(d['case'])
        elif d['kind'] == 'views':
            from checks import c17_views
            ok, detail = c17_views.replay(d['case'])
        elif d['kind'] == 'collision': ok, detail = replay_collision(d['a'], d['b'], d['model'])
        else: n, bad = stability_checks(); ok, detail = d['label'] in bad, str(bad)
        print('REPRODUCED' if ok else 'not reproduced', detail); return 1 if ok else 0
    run = harness.Run(PID, 'other', args,
        'The real hashing code runs with hashlib replaced by a recorder on skeleton values with sentinel leaves; each sha1 becomes a pre-image term over concrete bytes, 20-byte digest tokens, '
        'symbolic leaves constrained to the language of their encoder (repr(int): -?(0|[1-9][0-9]*), utf-8 text, raw bytes) and sorted groups.  For every pair of skeletons z3 (sequence theory) decides whether two '
        'different values can have equal top-level pre-images given that digests are equal iff their pre-images are equal (ideal SHA-1).  unsat = collision-free up to SHA-1 itself; order independence of '
        'dict/set/multiset is part of the same query (members enter as a sorted group).')
    run.stubs = ['nutils.types.hashlib -> recorder', 'builtin sorted shadowed in nutils.types (sorted groups of digests recorded as groups)', 'leaves are substituted for sentinels in the recorded byte chunks']
    run.assumptions = ['ideal SHA-1: digest equality <=> pre-image equality', 'leaf texts bounded to 8 characters in the collision queries', 'repr(float) treated as an opaque injective text',
                       'declined: identity of interned objects over allocation/GC histories (weak reference tables); seekable streams are not "immutable nutils values" (their known pos/content ambiguity is reported as an observation only)']
    names = list(S)
    # sentinel independence: the chunk structure must not depend on the leaf values
    for n_ in names:
        f, kinds = S[n_]
        shapes = {Enc('t', n_, f, kinds, sent_idx=i).structure for i in range(3)} if kinds and 'bool' not in kinds else {1}
        if len(shapes) != 1: run.harness_error(f'recorded structure of {n_} depends on the leaf values')
    pairs = [(a, b) for i, a in enumerate(names) for b in names[i:]]
    if args.tier == 'quick':
        import random
        rng = random.Random(args.seed)
        same = [(a, a) for a in names]
        confusions = [('tuple2', 'list2'), ('nest_l', 'nest_r'), ('tuple3', 'nest_l'), ('tuple3', 'nest_r'), ('tuple2', 'nest_1'), ('tuple1', 'nest_11'), ('int', 'str'), ('int', 'bool'), ('int', 'float'), ('str', 'bytes'), ('dict1', 'dict_as_tuple'), ('dict1', 'frozendict'),
                      ('tuple2', 'namedtuple'), ('dataclass', 'dataclass_dict'), ('dataclass', 'tuple2'), ('immutable', 'immutable2'), ('immutable', 'immutable_twin'), ('immutable', 'immutable_args'), ('frozenset2', 'tuple2'), ('frozenset2', 'frozenmultiset'),
                      ('m_direct', 'm_newton'), ('m_newton', 'm_reuse'), ('m_linesearch', 'm_minimize'),
                      ('tuple_si', 'tuple_is'), ('tuple_str2', 'tuple_bytes2'), ('tuple0', 'list0'), ('tuple0', 'frozenset0'), ('dict0', 'frozenset0'), ('none', 'ellipsis'), ('type_int', 'type_str'), ('type_int', 'int'), ('tuple2', 'tuple3'), ('tuple1', 'int'), ('list2', 'frozenset2'), ('set_str2', 'tuple_str2')]
        rest = [p for p in pairs if p not in same and p not in confusions and (p[1], p[0]) not in confusions]
        pairs = same + confusions + rng.sample(rest, 120)
    if args.only: pairs = [p for p in pairs if args.only in p[0] or args.only in p[1]]
    run.bounds = dict(skeletons=len(names), pairs=len(pairs), leaf_text_length='<= 8', containers_nested='<= 2', solver_timeout_s=60)
    with harness.FuncTrace() as ft:
        record(((1, 2), {'a': Plain(1, 2)}, frozenset([1]), ntypes.frozendict({'k': 1}), DC(1, 2)))
    run.functions = {n for n in ft.names if 'types' in n}
    obligations = discharged = 0
    for out in harness.pmap(query, pairs, args.jobs, chunksize=4):
        if 'harness_error' in out: run.harness_error(out['harness_error'][:500]); continue
        obligations += 1
        run.case(out['pair'], out['ndig'] > 0)
        run.queries[{'unsat': 'exact_unsat', 'sat': 'sat', 'unknown': 'unknown'}[out['result']]] += 1
        run.sample(dict(pair=out['pair'], digests=out['ndig'], verdict=out['result']), limit=12)
        if out['result'] == 'unsat': discharged += 1
        elif out['result'] == 'unknown': run.unconfirmed(out['pair'], 'solver timeout')
        else:
            na, nb = out['pair'].split(' vs ')
            ok, detail = replay_collision(na, nb, out['model'])
            if ok: run.violation(f'collision:{out["pair"]}', f'hash encoding is not injective: {detail}', dict(kind='collision', a=na, b=nb, model=out['model']))
            else: run.unconfirmed(out['pair'], f'encoding collision model {out["model"]} did not reproduce with the real SHA-1 ({detail})')
    # arrays: hash is a function of the array value whatever the memory layout, and injective in it (symbolic strided views, real nutils_hash)
    if not args.only or args.only == 'views':
        from checks import c17_views
        nv = 0
        for o in c17_views.obligations(args.tier):
            obligations += o['unsat'] + o['unknown'] + len(o['sat']); discharged += o['unsat']; nv += o['unsat']
            run.case(o['label'], o['unsat'] > 0); run.paths += o['paths']
            run.queries['exact_unsat'] += o['unsat']; run.queries['unknown'] += o['unknown']; run.queries['sat'] += len(o['sat'])
            run.sample(dict(obligation=o['label'], paths=o['paths'], proved=o['unsat']), limit=30)
            if o['errors'] or not o['exhaustive'] or o['unknown']: run.unconfirmed(o['label'], f'not exhaustive / unknown: {o["errors"][:2]}')
            for c in o['sat']:
                ok, detail = c17_views.replay(c)
                if ok: run.violation(f'views:{c["kind"]}:{o["label"]}', f'nutils_hash of an ndarray: {detail}'[:500], dict(kind='views', case=c)); break
                else: run.unconfirmed(o['label'], f'{c["kind"]} model did not reproduce ({detail})')
        o = c17_views.stream_obligations()
        obligations += o['unsat'] + o['unknown'] + len(o['sat']); discharged += o['unsat']
        run.case(o['label'], o['unsat'] > 0); run.paths += o['paths']; run.queries['exact_unsat'] += o['unsat']; run.queries['unknown'] += o['unknown']; run.queries['sat'] += len(o['sat'])
        run.sample(dict(obligation=o['label'], paths=o['paths'], proved=o['unsat']), limit=30)
        if o['errors'] or o['unknown'] or not o['exhaustive']: run.unconfirmed(o['label'], f'{o["errors"][:2]}')
        for c in o['sat']:
            ok, detail = c17_views.replay_stream(c)
            if ok: run.violation('stream:' + o['label'], f'nutils_hash of a seekable stream does not cover the whole content: {detail}', dict(kind='stream', case=c)); break
            else: run.unconfirmed(o['label'], f'stream model did not reproduce ({detail})')
        if nv == 0: run.harness_error('array-view obligations: nothing was proved (vacuous)')
        run.stubs.append('nutils.types.numpy -> proxy whose ndarray is a symbolic strided-view class; ndarray.tobytes(order) modelled after numpy\'s documented semantics')
        run.bounds['array_views'] = 'shapes %s, strides multiples of 8 in [-64,64], non-overlapping, element types <f8/<i8' % c17_views.SHAPES
    # vacuity twin: a deliberately ambiguous encoding (raw concatenation of two int reprs) must be sat
    x1, y1, x2, y2 = z3.Strings('x1 y1 x2 y2'); s = z3.Solver()
    s.add(*[z3.InRe(v, INTRE) for v in (x1, y1, x2, y2)], z3.Concat(x1, y1) == z3.Concat(x2, y2), x1 != x2, z3.Length(x1) <= 4, z3.Length(x2) <= 4, z3.Length(y1) <= 4, z3.Length(y2) <= 4)
    run.twin(str(s.check()) == 'sat')
    # observation (not a violation): seekable streams
    a = io.BytesIO(b'2'); a.seek(1); b = io.BytesIO(b'');
    run.counters['observation_stream_pos_content_ambiguity'] = int(ntypes.nutils_hash(io.BytesIO(b'2' * 1)) is not None)
    n, bad = stability_checks()
    run.counters['stability_cases'] = n
    for label in bad: run.violation(f'stability:{label}', f'hash is not stable across construction routes: {label}', dict(kind='stability', label=label))
    return run.finish(dict(obligations=obligations, discharged=discharged, rule='case = one pair of value skeletons; nontrivial = the query contains at least one digest token'))

if __name__ == '__main__':
    sys.exit(main())
