'''C03, buffer-keyed memo tables: nutils.types.lru_cache (used by the transform items that compiled TransformCoords code calls).

A compiled function stays a pure function of its arguments only if a memo hit implies that the array handed in denotes the same
values as the array the entry was computed for.  The real lru_cache wrapper is executed on two SYMBOLIC array views of one
immutable memory: data pointer, strides and axis lengths are z3 integers, the element type is enumerated, the memory contents are
an uninterpreted function.  numpy's rule "the interface reports strides=None exactly for C-contiguous arrays" is part of the model.
On every path where the second call is served from the cache, z3 must refute "the two views differ in type, shape or some element".'''
import types as pytypes, numpy, z3, itertools
from symx import solve
from symx.sym import explore, SInt, SBool, ctx, lift
import nutils.types as ntypes

MEM = z3.Function('mem', z3.IntSort(), z3.RealSort())

class HInt(SInt):
    'symbolic int usable inside dictionary keys: constant hash, equality decided by the path explorer'
    __slots__ = ()
    def __hash__(s): return 0

class _Flags: writeable = False
class _DT:
    def __init__(s, typestr): s.str = typestr
class SymView:
    'what lru_cache reads of an immutable ndarray: base, flags, __array_interface__, shape, strides, dtype'
    def __init__(s, name, ndim, typestr):
        s.name = name; s.base = None; s.flags = _Flags(); s.ndim = ndim; s.dtype = _DT(typestr); s.typestr = typestr
        s.ptr = HInt(z3.Int(f'{name}_ptr'))
        s.shape = tuple(HInt(z3.Int(f'{name}_n{k}')) for k in range(ndim))
        s.strides = tuple(HInt(z3.Int(f'{name}_s{k}')) for k in range(ndim))
        s.assume = [s.ptr.t >= 0, s.ptr.t <= 256, s.ptr.t % 8 == 0] + [z3.And(n.t >= 1, n.t <= 3) for n in s.shape] + [z3.And(t.t >= -32, t.t <= 32, t.t % 8 == 0) for t in s.strides]
        # all addresses inside a 512-byte buffer
        for idx in itertools.product(*[(0, 2)] * ndim):
            lo = s.ptr.t + sum(z3.If(i == 0, 0, (n.t - 1)) * t.t for i, n, t in zip(idx, s.shape, s.strides))
            s.assume.append(z3.And(lo >= 0, lo <= 504))
    def cstrides(s):
        out, acc = [], z3.IntVal(8)
        for n in reversed(s.shape):
            out.append(acc); acc = acc * n.t
        return tuple(reversed(out))
    def bind(s):
        'fix the interface dictionary on the current path: strides is None iff the view is C-contiguous (numpy semantics)'
        contiguous = bool(SBool(z3.And(*[t.t == c for t, c in zip(s.strides, s.cstrides())])))
        s.__array_interface__ = dict(data=(s.ptr, True), strides=None if contiguous else s.strides, shape=s.shape, typestr=s.typestr, version=3)
    def addr(s, idx):
        return s.ptr.t + sum(i * t.t for i, t in zip(idx, s.strides))

class _NP(pytypes.ModuleType):
    def __init__(s): super().__init__('numpy_for_types'); s.ndarray = SymView
    def __getattr__(s, n): return getattr(numpy, n)

_KEEP = []

def differs(v1, v2):
    'z3 term: the two views do not denote the same array'
    if v1.typestr != v2.typestr or v1.ndim != v2.ndim: return z3.BoolVal(True)
    shape_ne = z3.Or(*[a.t != b.t for a, b in zip(v1.shape, v2.shape)])
    elem_ne = []
    for idx in itertools.product(range(3), repeat=v1.ndim):
        inside = z3.And(*[z3.IntVal(i) < n.t for i, n in zip(idx, v1.shape)])
        elem_ne.append(z3.And(inside, MEM(v1.addr(idx)) != MEM(v2.addr(idx))))
    return z3.Or(shape_ne, *elem_ne)

def obligations():
    '''yields dict(label, paths, hits, verdict 'unsat'|'sat'|'unknown', model)'''
    saved = ntypes.numpy
    ntypes.numpy = _NP()
    try:
        for nd1, nd2 in ((1, 1), (2, 2), (1, 2), (2, 1)):
            for t1, t2 in (('<f8', '<f8'), ('<f8', '<i8')):
                calls = []
                def run():
                    calls.clear()
                    a, b = SymView('A', nd1, t1), SymView('B', nd2, t2)
                    a.bind(); b.bind()
                    f = ntypes.lru_cache(lambda arr: calls.append(arr.name) or len(calls))
                    f(a)
                    f(b)
                    _KEEP.append((a, b, f))      # the cache holds weak references whose callbacks compare symbolic keys: keep the views alive for the life of the process
                    return list(calls), a, b
                a0, b0 = SymView('A', nd1, t1), SymView('B', nd2, t2)
                paths, complete = explore(run, assumptions=a0.assume + b0.assume, max_paths=64, timeout_ms=10000)
                out = dict(label=f'lru_cache: views of {nd1} and {nd2} axes, element types {t1}/{t2}', paths=len(paths), exhaustive=bool(complete), hits=0, unsat=0, sat=[], unknown=0, errors=[])
                for P in paths:
                    if P.tag != 'ok':
                        out['errors'].append(f'{P.tag}: {str(P.value)[:120]}'); continue
                    callnames, a, b = P.value
                    if callnames == ['A', 'B']: continue          # miss: recomputed, nothing to show
                    out['hits'] += 1
                    st, m = solve.holds(z3.Not(differs(a, b)), pc=list(P.pc) + a.assume + b.assume, timeout_ms=20000)
                    if st == 'unsat': out['unsat'] += 1
                    elif st == 'sat': out['sat'].append(model_views(m, a, b))
                    else: out['unknown'] += 1
                yield out
    finally:
        ntypes.numpy = saved

def model_views(m, a, b):
    g = lambda t: m.eval(t, model_completion=True).as_long()
    return [dict(ptr=g(v.ptr.t), shape=[g(n.t) for n in v.shape], strides=[g(t.t) for t in v.strides], typestr=v.typestr) for v in (a, b)]

def replay(views):
    '''real numpy, real lru_cache: two read-only views of one buffer; the memoised function must return what the plain function returns'''
    saved = ntypes.numpy; ntypes.numpy = numpy       # the obligations generator may be suspended with its proxy installed
    try:
        return _replay(views)
    finally:
        ntypes.numpy = saved

def _replay(views):
    base = numpy.arange(64, dtype=float) * 1.5 + 1
    def mk(v):
        raw = base if v['typestr'] == '<f8' else base.view('<i8')
        arr = numpy.lib.stride_tricks.as_strided(raw[v['ptr'] // 8:], shape=tuple(v['shape']), strides=tuple(v['strides']), writeable=False)
        return arr
    base.setflags(write=False)
    plain = lambda arr: (arr.dtype.str, arr.shape, tuple(arr.ravel().tolist()))
    memo = ntypes.lru_cache(plain)
    try:
        A, B = mk(views[0]), mk(views[1])
        memo(A); got = memo(B)
    except Exception as ex:
        return False, f'views not constructible: {type(ex).__name__}: {ex}'
    want = plain(B)
    if got != want: return True, f'memoised call on the second view returned {got}, the function itself returns {want} (first view {views[0]}, second view {views[1]})'
    return False, 'agree'
