'''C13 - argument manipulation commutes with evaluation.

replace_arguments, linearize, derivative, factor, field on argument-only function arrays and on integrals over a
2-element sample are lowered and compiled by the real code and run on z3-symbolic argument values; the oracle is the
definition evaluated symbolically: replace(f, x:g)(A) = f(A with x := g(A)), linearize/derivative = dual-number tangent,
factor(f)(A) = f(A).  All documented spellings of an argument specification must denote the same function.'''
import sys, random, warnings, numpy, z3, itertools
warnings.simplefilter('ignore')
from symx import harness, tv, solve, fn, interp, dual
from symx.sym import explore, ctx, Unsupported, PathAbort, lift
from symx.sarray import SArray
from symx.run import sym_compile, STUBS
from symx.harness import Timeout, with_timeout
from nutils import function, evaluable as ev, mesh
import treelog

PID = 'C13'
ARGS = {'u': ((2,), float), 'v': ((2,), float), 'w': ((2,), float), 'p': ((), float), 'q': ((), float), 'c': ((3,), float), 'd': ((3,), float),
        'E': ((2, 3, 2), float), 'G': ((2, 3, 2), float), 'S': ((3, 2), float), 'V': ((3, 2), float)}   # multi-axis arguments with unequal leading lengths (index ravelling in Monomial/_Replace)
DIRNAME = {'u': 'w', 'v': 'w', 'p': 'q', 'q': 'p', 'c': 'd', 'd': 'c', 'E': 'G', 'S': 'V'}
def A(n): return function.Argument(n, ARGS[n][0], dtype=ARGS[n][1])

_topo = None
def topo_geom():
    global _topo
    if _topo is None:
        t, g = mesh.rectilinear([numpy.array([0., 1., 3.])]); _topo = t, g, t.basis('std', degree=1)
    return _topo

def functionals():
    u, v, w, p, q, c, d = (A(n) for n in 'uvwpqcd')
    E, S = A('E'), A('S')
    t, g, basis = topo_geom()
    uh = basis @ c; vh = basis @ d
    F = dict(
        tens=lambda: numpy.einsum('ijk,ijk,j->', E, E, c) * p + E[1, 2, 0] ** 3 + (E[0] * S).sum((0, 1)),
        tensvec=lambda: numpy.einsum('ijk,jk->i', E, S) * u + (S * S)[2] * E[1, 0, 1],
        quad=lambda: (u * u).sum() * p + q,
        bilin=lambda: u @ v + p * q,
        cubic=lambda: u ** 3 + v * p,
        mixed=lambda: numpy.stack([u[0] * v[1], u[1] * u[1] * p, q * q * q]),
        sin=lambda: numpy.sin(u) * p + numpy.cos(v[::-1]),
        ratio=lambda: (u[0] + 2.) / (1. + v @ v),
        outer=lambda: u[:, numpy.newaxis] * v[numpy.newaxis, :] + p,
        integral=lambda: t.integral(uh * uh * function.J(g), degree=2) * p,
        intvec=lambda: t.integral(basis * uh * vh * function.J(g), degree=3),
        intgrad=lambda: t.integral(function.grad(uh, g)[0] * vh * function.J(g), degree=2) + q,
    )
    return F

def values(names, prefix=''):
    return {n: SArray.symbolic(prefix + n, ARGS[n][0], 'f') for n in names}

def ev_of(f):
    return fn.lower(function.Array.cast(f), ())

def run_eval(f, vals):
    e = ev_of(f)
    with treelog.set(treelog.NullLog()):
        return sym_compile(e)(vals)

def cases(tier):
    F = functionals()
    u, v, w, p, q, c, d = (A(n) for n in 'uvwpqcd')
    C = []
    # --- replace: (function name, replacement spec builder, description, equivalent spellings)
    R = {
        'quad': [dict(u=v), dict(u=w * 2.), dict(p=q * q), dict(u=v, p=q)],
        'bilin': [dict(u=v, v=u), dict(u=v), dict(u=u[::-1]), dict(p=q, q=p), dict(u=v * p)],
        'cubic': [dict(u=v), dict(v=u * u), dict(p=(u * u).sum())],
        'mixed': [dict(u=v, v=u), dict(q=p)],
        'sin': [dict(u=v), dict(v=numpy.sin(u))],
        'ratio': [dict(v=u), dict(u=v * 2.)],
        'outer': [dict(u=v, v=u)],
        'integral': [dict(c=d), dict(c=d * p), dict(p=q)],
        'intvec': [dict(c=d, d=c), dict(c=d)],
        'intgrad': [dict(c=d), dict(d=c * 2.), dict(q=p)],
    }
    for name, specs in R.items():
        for k, spec in enumerate(specs):
            C.append(('replace', name, k))
    # --- spellings (argument -> argument replacements only)
    for name, spec in (('quad', dict(u='v', p='q')), ('bilin', dict(u='v', v='u')), ('integral', dict(c='d'))):
        C.append(('spellings', name, 0))
    # --- linearize / derivative / factor
    for name in F:
        for target in ('u', 'v', 'p', 'c', 'd', 'q', 'E', 'S'):
            C.append(('linearize', name, target)); C.append(('derivative', name, target))
        if name not in ('sin', 'ratio'): C.append(('factor', name, 0))
        if name not in ('sin', 'ratio'):
            for target in ('u', 'p', 'c', 'E', 'S'):
                C.append(('lfactor', name, target)); C.append(('dfactor', name, target))
    C.append(('field', 'field', 0)); C.append(('field', 'field', 1))
    return C, R

SPELL = {
    'quad': (dict(u='v', p='q'), ['u:v,p:q', ('u:v', 'p:q'), [('u', 'v'), ('p', 'q')], {'u': A('v'), 'p': A('q')}, [(A('u'), A('v')), 'p:q']]),
    'bilin': (dict(u='v', v='u'), ['u:v,v:u', ('u:v', 'v:u'), [('u', 'v'), ('v', 'u')], {'u': A('v'), 'v': A('u')}, [(A('u'), A('v')), 'v:u']]),
    'integral': (dict(c='d'), ['c:d', ('c:d',), [('c', 'd')], {'c': A('d')}, [(A('c'), A('d'))]]),
}

def names_of(f): return sorted(function.Array.cast(f).arguments)

def case(item):
    kind, name, k = item
    key = f'{kind}:{name}:{k}'
    res = dict(key=key, item=list(item), viol=[], unconfirmed=[], q=dict(exact_unsat=0, margin_unsat=0, sat=0, unknown=0, trivial=0), paths=0, status='ok', nontrivial=False)
    F = functionals(); _, R = cases('quick')
    try:
        with treelog.set(treelog.NullLog()):
            pairs = with_timeout(240, lambda: build_pairs(kind, name, k, F, R))
    except Timeout:
        res['status'] = 'timeout'; return res
    except NotApplicable:
        res['status'] = 'n/a'; return res
    except (Unsupported, PathAbort) as ex:
        res['status'] = 'unsupported'; return res
    except Exception as ex:
        if isinstance(ex, RuntimeError) and str(ex).startswith(('unsupported', 'abort')):
            res['status'] = 'unsupported'; return res
        res['viol'].append((f'{key}: the library raised {type(ex).__name__}: {ex}'[:300], dict(item=list(item), label='raises', kind='raises'))); return res
    for label, (ref, got, vals, defined, pc, side, margin) in pairs:
        if solve.structure(ref) != solve.structure(got):
            res['viol'].append((f'{key} [{label}]: shape/kind {solve.structure(got)} vs definition {solve.structure(ref)}', dict(item=list(item), label=label, kind='structure'))); continue
        v = solve.equiv(ref, got, pc=pc, defined=defined, side=side, timeout_ms=15000, margin=margin, exact_first=margin is None or True, budget_s=40)
        for kk, n in v.counts().items(): res['q'][kk] += n
        detail = ''
        for idx, m in v.models[:2]:
            cv = {n: numpy.asarray(x) for n, x in solve.concretize(m, vals).items()}
            ok, detail = replay(kind, name, k, label, cv)
            if ok:
                res['viol'].append((f'{key} [{label}]: differs from the definition at {tv.tolist(cv)}: {detail}'[:600], dict(item=list(item), label=label, kind='value', arguments=tv.tolist(cv)))); break
        else:
            if v.models: res['unconfirmed'].append(f'{key} [{label}]: model did not reproduce ({detail})')
    res['nontrivial'] = res['q']['exact_unsat'] + res['q']['margin_unsat'] + res['q']['sat'] > 0
    return res

class NotApplicable(Exception): pass

def build_pairs(kind, name, k, F, R):
    '''returns list of (label, (reference, result, values, defined, pc, side, margin))'''
    out = []
    def sym(fnc):
        paths, _ = explore(fnc, max_paths=4, timeout_ms=10000)
        P = paths[0]
        if P.tag != 'ok': raise RuntimeError(f'{P.tag}: {P.value}')
        return P
    if kind == 'replace':
        f = F[name](); spec = R[name][k]
        g = function.replace_arguments(f, spec)
        allnames = sorted(set(names_of(f)) | set(names_of(g)) | {n for val in spec.values() for n in names_of(val)})
        def run():
            vals = values(allnames)
            new = {x: run_eval(val, vals) for x, val in spec.items()}      # g(A), all replacements simultaneous
            ref = run_eval(f, dict(vals, **new))
            d0 = list(ctx().defined)
            got = run_eval(g, {n: vals[n] for n in names_of(g)})
            return ref, got, vals, d0
        P = sym(run); ref, got, vals, d0 = P.value
        out.append((f'spec {sorted(spec)}', (ref, got, vals, d0, P.pc, P.side, None)))
        ann = set(names_of(g))
        needed = (set(names_of(f)) - set(spec)) | {n for val in spec.values() for n in names_of(val)}
        if not needed <= ann: out.append(('announced arguments', (SArray.wrap(numpy.array(1)), SArray.wrap(numpy.array(0)), vals, d0, P.pc, P.side, None)))
    elif kind == 'spellings':
        f = F[name](); base, others = SPELL[name]
        g0 = function.replace_arguments(f, base); l0 = function.linearize(f, base)
        for i, sp in enumerate(others):
            gi = function.replace_arguments(f, sp); li = function.linearize(f, sp)
            for tag, a_, b_ in (('replace', g0, gi), ('linearize', l0, li)):
                allnames = sorted(set(names_of(a_)) | set(names_of(b_)))
                def run(a_=a_, b_=b_):
                    vals = values(allnames)
                    ref = run_eval(a_, {n: vals[n] for n in names_of(a_)}); d0 = list(ctx().defined)
                    got = run_eval(b_, {n: vals[n] for n in names_of(b_)})
                    return ref, got, vals, d0
                P = sym(run); ref, got, vals, d0 = P.value
                out.append((f'{tag} spelling {i}: {type(sp).__name__}', (ref, got, vals, d0, P.pc, P.side, None)))
    elif kind in ('linearize', 'derivative', 'lfactor', 'dfactor'):
        f = F[name](); target = k
        if target not in names_of(f): raise NotApplicable
        dirname = DIRNAME[target]
        f_ = function.factor(f) if kind.endswith('factor') else f     # derivative of the factored form must be the derivative of f
        if kind in ('linearize', 'lfactor'):
            g = function.linearize(f_, {target: dirname})
        else:
            g = function.derivative(f_, target)
        allnames = sorted(set(names_of(f)) | set(names_of(g)) | {dirname})
        ef = ev_of(f)
        def run():
            vals = values(allnames)
            got = run_eval(g, {n: vals[n] for n in names_of(g)})
            d0 = list(ctx().defined)
            if kind in ('derivative', 'dfactor'):
                dx = vals[dirname]; nd = dx.ndim
                got = numpy.sum((got * dx).reshape(got.shape[:got.ndim - nd] + (-1,)), axis=-1) if nd else got * dx
            dvals = {n: vals[n] for n in names_of(f)}
            dvals[target] = dual.seed(vals[target], vals[dirname])
            r, _how = tv.reference_eval(ef, dvals)
            return dual.tangent(r), got, vals, list(ctx().defined)
        P = sym(run); ref, got, vals, d0 = P.value
        out.append((f'd/d{target} in direction {dirname}', (ref, got, vals, d0, P.pc, P.side, 1e-9 if not kind.endswith('factor') else 1e-6)))
    elif kind == 'factor':
        f = F[name]()
        g = function.factor(f)
        allnames = names_of(f)
        def run():
            vals = values(allnames)
            ref = run_eval(f, vals); d0 = list(ctx().defined)
            got = run_eval(g, vals)
            return ref, got, vals, d0
        P = sym(run); ref, got, vals, d0 = P.value
        out.append(('factor', (ref, got, vals, d0, P.pc, P.side, 1e-6)))
    elif kind == 'field':
        B1 = numpy.array([[1., 2.], [0., 1.], [3., -1.]]); B2 = numpy.array([[1., 0.], [2., 1.]])
        if k == 0:
            f = function.field('fc', B1); shape = (3,)
            refexpr = lambda cv: numpy.einsum('i,ij->j', cv, SArray.wrap(B1))
        else:
            f = function.dotarg('fc', B1, B2, shape=(2,)); shape = (3, 2, 2)
            refexpr = lambda cv: numpy.einsum('ijk,il,jm->klm', cv, SArray.wrap(B1), SArray.wrap(B2))
        if dict(function.Array.cast(f).arguments) != {'fc': (tuple(shape), float)}:
            out.append(('argument shape', (SArray.wrap(numpy.array(1)), SArray.wrap(numpy.array(0)), {}, [], [], [], None)))
        def run():
            cv = SArray.symbolic('fc', shape)
            got = run_eval(f, dict(fc=cv))
            return refexpr(cv), got, dict(fc=cv), list(ctx().defined)
        P = sym(run); ref, got, vals, d0 = P.value
        out.append(('field definition', (ref, got, vals, d0, P.pc, P.side, None)))
    return out

def replay(kind, name, k, label, cv):
    '''real code, real numpy: compare with the definition evaluated concretely'''
    F = functionals(); _, R = cases('quick')
    def E(f, args):
        with treelog.set(treelog.NullLog()), numpy.errstate(all='ignore'):
            return function.eval(f, arguments={n: numpy.asarray(args[n], dtype=float) for n in names_of(f)})
    try:
        if kind == 'replace':
            f = F[name](); spec = R[name][k]; g = function.replace_arguments(f, spec)
            new = {x: E(val, cv) for x, val in spec.items()}
            ref = E(f, dict(cv, **new)); got = E(g, cv)
        elif kind == 'spellings':
            f = F[name](); base, others = SPELL[name]
            i = int(label.split('spelling ')[1].split(':')[0])
            if label.startswith('replace'): ref = E(function.replace_arguments(f, base), cv); got = E(function.replace_arguments(f, others[i]), cv)
            else: ref = E(function.linearize(f, base), cv); got = E(function.linearize(f, others[i]), cv)
        elif kind in ('linearize', 'derivative', 'lfactor', 'dfactor'):
            f = F[name](); target = k; dirname = DIRNAME[target]
            f_ = function.factor(f) if kind.endswith('factor') else f
            g = function.linearize(f_, {target: dirname}) if kind in ('linearize', 'lfactor') else function.derivative(f_, target)
            got = E(g, cv); d = numpy.asarray(cv[dirname], dtype=float)
            if kind in ('derivative', 'dfactor'): got = numpy.tensordot(got, d, axes=d.ndim) if d.ndim else got * d
            errs = []
            for h in (1e-4, 1e-5, 1e-6):
                ap = dict(cv); am = dict(cv); ap[target] = numpy.asarray(cv[target]) + h * d; am[target] = numpy.asarray(cv[target]) - h * d
                errs.append(numpy.max(numpy.abs((E(f, ap) - E(f, am)) / (2 * h) - got), initial=0.))
            ok = min(errs) > 1e-4 * max(1., float(numpy.max(numpy.abs(got), initial=0.)))
            return ok, f'finite differences differ by {min(errs):.3g}'
        elif kind == 'factor':
            f = F[name](); ref = E(f, cv); got = E(function.factor(f), cv)
        else:
            return True, 'field definition mismatch (no concrete replay needed: all-constant coefficients)'
    except Exception as ex:
        return True, f'raised {type(ex).__name__}: {ex}'
    if not tv.finite(ref): return False, 'reference not finite'
    return (not tv.same(numpy.asarray(ref), numpy.asarray(got), rtol=1e-7)), f'definition {tv.tolist(ref)} vs {tv.tolist(got)}'

def rejection_cases():
    '''auxiliary, concrete: wrong shapes/dtypes must be rejected rather than silently broadcast'''
    bad = []
    u = A('u'); f = (u * u).sum()
    tests = [
        ('eval with wrong-shaped value', lambda: function.eval(f, arguments=dict(u=numpy.ones(3)))),
        ('eval with scalar value broadcast', lambda: function.eval(f, arguments=dict(u=numpy.array(1.)))),
        ('eval with extra axis', lambda: function.eval(f, arguments=dict(u=numpy.ones((1, 2))))),
        ('replace with wrong shape', lambda: function.replace_arguments(f, dict(u=function.Argument('z', (3,))))),
        ('replace with wrong dtype', lambda: function.replace_arguments(f, dict(u=function.Argument('z', (2,), dtype=int)))),
        ('replace with scalar', lambda: function.replace_arguments(f, dict(u=A('p')))),
        ('derivative wrong shape', lambda: function.derivative(f, function.Argument('u', (3,)))),
        ('linearize to wrong-shaped existing argument', lambda: function.eval(function.linearize(f + A('c').sum(), 'u:c'), arguments=dict(u=numpy.ones(2), c=numpy.ones(3)))),
        ('arguments_for conflict', lambda: function.arguments_for(f, function.Argument('u', (3,)).sum())),
    ]
    n = 0
    for label, t in tests:
        n += 1
        try:
            with treelog.set(treelog.NullLog()): t()
        except Exception:
            continue
        bad.append(label)
    return n, bad

def main(argv=None):
    args = harness.parse_args(PID, argv)
    if args.replay:
        import json
        d = json.load(open(args.replay))['replay']
        if d.get('kind') == 'value':
            ok, detail = replay(d['item'][0], d['item'][1], d['item'][2], d['label'], {k: numpy.array(v) for k, v in d['arguments'].items()})
        elif d.get('kind') == 'reject':
            n, bad = rejection_cases(); ok, detail = d['label'] in bad, str(bad)
        else:
            r = case(tuple(d['item'])); ok, detail = bool(r['viol']), str(r['viol'][:1])
        print('REPRODUCED' if ok else 'not reproduced', detail); return 1 if ok else 0
    run = harness.Run(PID, 'translation_validation', args,
        'Function arrays over Arguments (polynomial, transcendental, rational, and integrals over a 2-element sample) are transformed by the real replace_arguments / linearize / derivative / factor / field, lowered, '
        'compiled and run on z3-symbolic argument values.  z3 decides per element that the result equals the definition evaluated symbolically (substitution of g(A); dual-number tangent; identity for factor) '
        'for ALL argument values, and that every documented spelling of an argument specification denotes the same function.')
    run.stubs = STUBS + ['oracle for linearize/derivative: dual numbers through symx.interp on the lowered function']
    run.assumptions = ['floats as reals', 'factor evaluates coefficients in floating point: compared with a 1e-6 relative margin on [-8,8]', 'wrong shape/dtype rejection is an enumerated concrete list (auxiliary)']
    C, _ = cases(args.tier)
    if args.only: C = [c for c in C if args.only in ':'.join(map(str, c))]
    run.bounds = dict(cases=len(C), functionals=sorted(functionals()), argument_shapes={k: v[0] for k, v in ARGS.items()}, polynomial_degree='<= 3')
    with harness.FuncTrace() as ft:
        case(('replace', 'quad', 0)); case(('linearize', 'integral', 'c'))
    run.functions = {n for n in ft.names if 'function' in n or 'evaluable.replace' in n or 'factor' in n.lower() or '_util' in n}
    # vacuity twin
    u, v = A('u'), A('v'); f = (u * u).sum()
    def tw():
        vals = values(['u', 'v']); return run_eval(f, dict(u=vals['v'])), run_eval(function.replace_arguments(f, dict(u=v * 2.)), vals)
    paths, _ = explore(tw); a_, b_ = paths[0].value; run.twin(solve.equiv(a_, b_).sat > 0)
    for res in harness.pmap(case, C, args.jobs, chunksize=1):
        if 'harness_error' in res:
            run.counters['worker_error'] += 1
            if run.counters['worker_error'] <= 5: run.inconclusive.append('worker error: ' + res['harness_error'][:600])
            continue
        run.counters[res['status']] += 1
        if res['status'] == 'n/a': continue
        run.case(res['key'], res['nontrivial']); run.add_queries(res['q'])
        for what, rp in res['viol']: run.violation(f'{res["key"]}:{rp["label"]}', what, rp)
        for u_ in res['unconfirmed']: run.unconfirmed(res['key'], u_)
        if res['nontrivial']: run.sample(dict(case=res['key'], queries=res['q']), limit=12)
    n, bad = rejection_cases()
    run.counters['rejection_cases'] = n
    for label in bad: run.violation(f'reject:{label}', f'value of wrong shape/dtype accepted: {label}', dict(item=['reject', label, 0], label=label, kind='reject'))
    return run.finish(dict(programs=run.cases, disagreements_checked=run.queries['sat'] + len(run.violations)))

if __name__ == '__main__':
    sys.exit(main())
