'''C11, locate() on structured topologies: the closed-form path of StructuredTopology._locate / _asaffine (the Newton iteration of the generic
path is floating-point numerics and stays declined).

The real _asaffine and _locate run on a geometry that is known to them only through the values of the uniform sample they draw: the harness replaces
`topo.sample` by a stub whose eval() returns the images of the real sample points under a SYMBOLIC axis-aligned map
    x_k = a_k + d_k X_k + c_k X_k^2            (a, d, c z3 reals, d != 0; X the root coordinates of the real uniform sample).
Obligations, for all coefficient values, target coordinates, tolerances:
  L1 (exact on affine geometries)  c = 0: the closed form is taken and every returned (element, local point) maps onto its target exactly, in input order;
                                   targets outside the domain (beyond eps) raise LocateError.
  L2 (curvature is noticed)        c_k != 0 along ANY axis: the fitted error along that axis is positive, hence with tol = eps = 0+ the closed form is
                                   not taken (the generic path is entered) - in particular along axes that hold a single element.
  L3 (no state across calls)       two calls with different `arguments` (different offsets a): the second result is the one of a fresh topology.'''
import types as pytypes, numpy, z3, itertools
from symx import solve
from symx.sym import explore, SReal, SInt, SBool, lift, Unsupported
from symx.sarray import SArray, npproxy
from nutils import mesh, topology
import treelog

class _Generic(Exception): pass

SHAPES = [(3,), (1,), (2, 2), (1, 3), (3, 1), (1, 1)]

class _TopoNP(pytypes.ModuleType):
    'numpy proxy for nutils.topology that records the multi-index handed to ravel_multi_index'
    def __init__(s): super().__init__('numpy_for_topology'); s.last_multi_index = None
    def __getattr__(s, n): return getattr(npproxy, n)
    def sort(s, a, axis=-1, **kw):
        if isinstance(a, (list, tuple)): a = numpy.stack([SArray.wrap(x) for x in a])      # a list of arrays is not inspected by numpy's dispatch
        return numpy.sort(a, axis=axis)
    def ravel_multi_index(s, mi, dims, **kw):
        s.last_multi_index = mi
        return npproxy.ravel_multi_index(mi, dims, **kw)

class _Geom:
    def __init__(s, ndims): s.shape = (ndims,)

def _setup(shape):
    topo, geom0 = mesh.rectilinear([numpy.arange(n + 1.) for n in shape])
    return topo, geom0

def _stub_sample(topo, geom0, coef):
    'topo.sample replacement: eval() maps the real uniform sample points through the symbolic geometry; coef(arguments) -> (a, d, c)'
    real_sample = type(topo).sample
    def sample(scheme, n):
        with treelog.set(treelog.NullLog()):
            X = numpy.asarray(real_sample(topo, scheme, n).eval(geom0), dtype=float)
        class S:
            @staticmethod
            def eval(geom, arguments=None):
                a, d, c = coef(arguments)
                out = numpy.empty(X.shape, object)
                import fractions
                for i in numpy.ndindex(*X.shape):
                    k = i[-1]; fr = fractions.Fraction(float(X[i])).limit_denominator(720)      # uniform sample points are (j + 1/2)/n + element: exact rationals
                    x = SReal(z3.Q(fr.numerator, fr.denominator))
                    out[i] = a[k] + d[k] * x + c[k] * (x * x)
                return SArray(out, 'f')
        return S
    return sample

def _run_locate(shape, coef, coords, tol, eps, arguments=None, topo_geom=None, geom=None):
    topo, geom0 = topo_geom or _setup(shape)
    npx = _TopoNP()
    saved = topology.numpy
    topology.numpy = npx
    topo.__dict__['sample'] = _stub_sample(topo, geom0, coef)
    def generic(*a, **k): raise _Generic()
    saved_super = topology.TransformChainsTopology._locate
    topology.TransformChainsTopology._locate = generic
    try:
        with treelog.set(treelog.NullLog()):
            ielems, points = topo._locate(geom or _Geom(len(shape)), coords, tol, eps, arguments, 0, None, False)
        return 'closed-form', ielems, points, npx.last_multi_index
    except _Generic:
        return 'generic', None, None, None
    except topology.LocateError:
        return 'LocateError', None, None, None
    finally:
        topology.numpy = saved; topology.TransformChainsTopology._locate = saved_super; topo.__dict__.pop('sample', None)

def _sym(name, n): return [SReal(z3.Real(f'{name}{k}')) for k in range(n)]
def _s0(name): return SArray.wrap_elem(SReal(z3.Real(name)), 'f')      # a symbolic scalar as a 0-d array (what numpy would hand to the code)

def affine_case(shape):
    nd = len(shape); npts = 2
    out = dict(label=f'locate on a structured {"x".join(map(str, shape))} mesh, affine axis-aligned geometry', paths=0, unsat=0, unknown=0, sat=[], errors=[], closed=0)
    def run():
        a, d = _sym('a', nd), _sym('d', nd); zero = [0.] * nd
        coords = SArray.symbolic('y', (npts, nd))
        tol = _s0('tol'); eps = _s0('eps')
        kind, ielems, points, mi = _run_locate(shape, lambda arguments: (a, d, zero), coords, tol, eps)
        return kind, ielems, points, mi, a, d, coords
    assume = [z3.Real(f'd{k}') != 0 for k in range(nd)] + [z3.Real('tol') >= 0, z3.Real('eps') >= 0, z3.Or(z3.Real('tol') > 0, z3.Real('eps') > 0)]
    paths, complete = explore(run, assumptions=assume, max_paths=256, timeout_ms=10000)
    out['paths'] = len(paths); out['exhaustive'] = bool(complete)
    for P in paths:
        if P.tag == 'abort': continue
        if P.tag != 'ok':
            out['errors'].append(f'{P.tag}: {str(P.value)[:160]}'); continue
        kind, ielems, points, mi, a, d, coords = P.value
        eps_t = z3.Real('eps')
        inside = z3.And(*[z3.And(coords.a[p, k].t >= z3.If(d[k].t > 0, a[k].t, a[k].t + d[k].t * shape[k]) - eps_t, coords.a[p, k].t <= z3.If(d[k].t > 0, a[k].t + d[k].t * shape[k], a[k].t) + eps_t) for p in range(npts) for k in range(nd)])
        if kind == 'generic':
            claim = z3.BoolVal(False)        # an exactly affine geometry has zero fitted error (sample points are exact rationals here): the closed form must be taken
            label = 'closed form taken for an affine geometry'
        elif kind == 'LocateError':
            claim = z3.Not(inside); label = 'LocateError only for targets outside the domain'
        else:
            out['closed'] += 1
            points = SArray.wrap(points); mi = [SArray.wrap(m) for m in mi]
            conds = [inside]
            for p in range(npts):
                for k in range(nd):
                    m = lift(mi[k].a[p]); xi = lift(points.a[p, k])
                    conds.append(a[k].t + d[k].t * (z3.ToReal(m.t) if m.kind == 'i' else m.t) + d[k].t * xi.t == coords.a[p, k].t)
                    conds.append(z3.And(m.t >= 0, m.t <= shape[k] - 1))
            claim = z3.And(*conds); label = 'returned locations map onto their targets (in input order), elements in range'
        st, m = solve.holds(claim, pc=list(P.pc) + assume, timeout_ms=20000)
        if st == 'unsat': out['unsat'] += 1
        elif st == 'unknown': out['unknown'] += 1
        else: out['sat'].append(dict(kind='affine', label=label, shape=list(shape), model={str(dd): str(m[dd]) for dd in m.decls()}))
    return out

def curvature_case(shape, axis):
    nd = len(shape)
    out = dict(label=f'locate on a structured {"x".join(map(str, shape))} mesh, geometry quadratic along axis {axis}', paths=0, unsat=0, unknown=0, sat=[], errors=[], closed=0)
    def run():
        a, d = _sym('a', nd), _sym('d', nd); c = [0.] * nd; c[axis] = SReal(z3.Real('c'))
        coords = SArray.wrap(numpy.array([[.25] * nd]))
        kind, ielems, points, mi = _run_locate(shape, lambda arguments: (a, d, c), coords, _s0('tol'), 0.)
        return kind
    # tol below the curvature scale: the deviation of a parabola from the chord through its end points is |c| L^2 / 4 at mid span; any tol smaller than the
    # deviation at the sample points must lead to the generic path.  tol > 0 arbitrary small is expressed as: tol < |c| * 1e-3
    assume = [z3.Real(f'd{k}') != 0 for k in range(nd)] + [z3.Real('c') != 0, z3.Real('tol') > 0, z3.Real('tol') < z3.If(z3.Real('c') > 0, z3.Real('c'), -z3.Real('c')) / 1000]
    paths, complete = explore(run, assumptions=assume, max_paths=64, timeout_ms=10000)
    out['paths'] = len(paths); out['exhaustive'] = bool(complete)
    for P in paths:
        if P.tag == 'abort': continue
        if P.tag != 'ok':
            out['errors'].append(f'{P.tag}: {str(P.value)[:160]}'); continue
        if P.value == 'generic': out['unsat'] += 1; continue       # path condition is feasible (explorer) and the generic path was entered: nothing to refute
        out['closed'] += 1
        s = z3.Solver(); s.add(*P.pc, *assume)
        r = str(s.check())
        if r == 'unsat': out['unsat'] += 1
        elif r == 'unknown': out['unknown'] += 1
        else:
            m = s.model()
            out['sat'].append(dict(kind='curvature', label=f'closed form taken although the geometry is curved along axis {axis} and tol is far below the curvature', shape=list(shape), axis=axis, model={str(dd): str(m[dd]) for dd in m.decls()}))
    return out

def history_case(shape):
    nd = len(shape)
    out = dict(label=f'locate twice on one structured {"x".join(map(str, shape))} mesh with different arguments', paths=0, unsat=0, unknown=0, sat=[], errors=[], closed=0)
    def run():
        tg = _setup(shape); g = _Geom(nd)        # the same topology and the same geometry object in both calls
        d = _sym('d', nd); zero = [0.] * nd
        coef = lambda arguments: (arguments['offset'], d, zero)
        A1 = dict(offset=_sym('p', nd)); A2 = dict(offset=_sym('q', nd))
        coords = SArray.symbolic('y', (1, nd))
        r1 = _run_locate(shape, coef, coords, _s0('tol'), 0., arguments=A1, topo_geom=tg, geom=g)
        r2 = _run_locate(shape, coef, coords, _s0('tol'), 0., arguments=A2, topo_geom=tg, geom=g)
        fresh = _run_locate(shape, coef, coords, _s0('tol'), 0., arguments=A2)
        return r2, fresh
    assume = [z3.Real(f'd{k}') != 0 for k in range(nd)] + [z3.Real('tol') > 0]
    paths, complete = explore(run, assumptions=assume, max_paths=256, timeout_ms=10000)
    out['paths'] = len(paths); out['exhaustive'] = bool(complete)
    for P in paths:
        if P.tag == 'abort': continue
        if P.tag != 'ok':
            out['errors'].append(f'{P.tag}: {str(P.value)[:160]}'); continue
        r2, fresh = P.value
        if r2[0] != fresh[0]:
            s = z3.Solver(); s.add(*P.pc, *assume); r = str(s.check())
            if r == 'sat': out['sat'].append(dict(kind='history', label=f'second call ends as {r2[0]}, a fresh topology as {fresh[0]}', shape=list(shape), model={}))
            elif r == 'unknown': out['unknown'] += 1
            else: out['unsat'] += 1
            continue
        if r2[0] != 'closed-form': out['unsat'] += 1; continue
        out['closed'] += 1
        v = solve.equiv((SArray.wrap(fresh[1]), SArray.wrap(fresh[2])), (SArray.wrap(r2[1]), SArray.wrap(r2[2])), pc=list(P.pc) + assume, timeout_ms=20000)
        out['unsat'] += v.exact_unsat + v.trivial; out['unknown'] += v.unknown
        if v.sat: out['sat'].append(dict(kind='history', label='the second call with other arguments returns locations of the first geometry', shape=list(shape), model={}))
    return out

def cases(tier):
    C = [('affine', s) for s in SHAPES] + [('curvature', (s, k)) for s in SHAPES for k in range(len(s))] + [('history', s) for s in ((3,), (2, 2), (1, 3))]
    return C

def run_case(c):
    kind, a = c
    return dict(affine=lambda: affine_case(a), curvature=lambda: curvature_case(*a), history=lambda: history_case(a))[kind]()

def replay(c, cex):
    '''public API, real numpy: Topology.locate on a real structured mesh with a concrete geometry of the offending kind; the images of the returned sample must lie within tol of the targets'''
    from nutils import function
    kind, a = c
    shape = a if kind != 'curvature' else a[0]
    nd = len(shape)
    topo, x = mesh.rectilinear([numpy.arange(n + 1.) for n in shape])
    tol = 1e-9
    with treelog.set(treelog.NullLog()):
        try:
            if kind == 'curvature':
                axis = a[1]
                geom = x + numpy.eye(nd)[axis] * (.125 * x[axis] ** 2)
                target = numpy.array([[.3 * shape[k] for k in range(nd)]]); target[0, axis] = .3 * shape[axis] + .125 * (.3 * shape[axis]) ** 2
                smp = topo.locate(geom, target, tol=tol)
                got = smp.eval(geom)
                if numpy.abs(got - target).max() > 10 * tol: return True, f'quadratic geometry along axis {axis} of a {shape} mesh: located image {got.tolist()} is {numpy.abs(got - target).max():.3g} away from the target {target.tolist()} (tol {tol}) and no error was raised'
                return False, 'within tolerance'
            if kind == 'history':
                off = function.Argument('offset', (nd,)); geom = x * 2. + off
                t1 = numpy.array([[1.] * nd]); A1 = dict(offset=numpy.zeros(nd)); A2 = dict(offset=numpy.full(nd, .5))
                topo.locate(geom, t1, tol=tol, arguments=A1)
                smp = topo.locate(geom, t1, tol=tol, arguments=A2)
                got = smp.eval(geom, arguments=A2)
                if numpy.abs(got - t1).max() > 10 * tol: return True, f'second locate with other arguments on a {shape} mesh: image {got.tolist()} instead of {t1.tolist()}'
                return False, 'within tolerance'
            geom = x * (-2.) + 1.
            t1 = numpy.array([[1. - 2. * (.3 * shape[k]) for k in range(nd)], [1. - 2. * (.9 * shape[k]) for k in range(nd)]])
            smp = topo.locate(geom, t1, tol=tol); got = smp.eval(geom)
            if numpy.abs(got - t1).max() > 10 * tol: return True, f'affine geometry on a {shape} mesh: images {got.tolist()} instead of {t1.tolist()}'
            return False, 'within tolerance'
        except Exception as ex:
            return (kind != 'curvature'), f'raised {type(ex).__name__}: {ex}'
