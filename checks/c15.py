'''C15 - matrix objects are faithful to the data they were assembled from (NumPy backend).

(a) validation: assemble_csr runs on SYMBOLIC integer arrays rowptr/colidx (concrete lengths) under the path
    explorer; z3 decides accepted => well-formed and well-formed => accepted against a 6-line specification.
(b) operations: for every sparsity pattern up to 3x3 (enumerated) and symbolic values, every NumpyMatrix
    operation is executed on z3 terms and compared with the dense model, for all values.'''
import sys, itertools, builtins, warnings, numpy, z3, pickle, contextlib, random
warnings.simplefilter('ignore')
from nutils import matrix, numeric
from nutils.matrix import _numpy as mnp, _base as mbase
import nutils.matrix as M
from symx import harness, solve, tv
from symx.sym import *
from symx.sarray import SArray, npproxy
from symx.solve import flat_elems

PID = 'C15'

class FakeBackend:
    @staticmethod
    def assemble(values, rowptr, colidx, ncols):
        return ('ACCEPT', values, rowptr, colidx, ncols)

@contextlib.contextmanager
def patched():
    saved = M.numpy, mnp.numpy, numeric.numpy, mbase.numpy
    M.numpy = mnp.numpy = numeric.numpy = mbase.numpy = npproxy
    M.all = lambda it: builtins.all(bool(x) for x in it)
    M.len = lambda x: x.shape[0] if isinstance(x, SArray) else builtins.len(x)
    try:
        yield
    finally:
        M.numpy, mnp.numpy, numeric.numpy, mbase.numpy = saved
        del M.all, M.len
STUBS = ['nutils.matrix.numpy, nutils.matrix._numpy.numpy, nutils.matrix._base.numpy, nutils.numeric.numpy -> symx.npproxy',
         'builtins all/len shadowed in nutils.matrix (element-wise bool, symbolic-array length)',
         'validation harness: backend replaced by a recorder (accept/reject only)']

def wf_formula(r, c, ncols, nnz, nrows):
    '''the specification: (rowptr, colidx, ncols) define a matrix unambiguously'''
    return z3.And(r[0] == 0, r[-1] == nnz, *[r[i] <= r[i + 1] for i in range(nrows)], *[z3.And(0 <= ck, ck < ncols) for ck in c],
                  *[z3.Implies(z3.Or(*[z3.And(r[i] <= k, k + 1 < r[i + 1]) for i in range(nrows)]), c[k] < c[k + 1]) for k in range(nnz - 1)])

def wf_concrete(rowptr, colidx, ncols, nvals):
    rowptr, colidx = list(rowptr), list(colidx)
    if rowptr[0] != 0 or rowptr[-1] != nvals or len(colidx) != nvals: return False
    if any(a > b for a, b in zip(rowptr, rowptr[1:])): return False
    if any(not 0 <= c < ncols for c in colidx): return False
    for a, b in zip(rowptr, rowptr[1:]):
        row = colidx[a:b]
        if any(x >= y for x, y in zip(row, row[1:])): return False
    return True

def validation_case(item):
    nnz, nrows, ncols = item
    out = dict(key=f'validate nnz={nnz} nrows={nrows} ncols={ncols}', paths=0, exhaustive=True, unsat=0, unknown=0, cex=[])
    def run():
        vals = SArray.symbolic('v', (nnz,))
        rowptr = SArray.symbolic('r', (nrows + 1,), 'i')
        colidx = SArray.symbolic('c', (nnz,), 'i')
        with patched(), matrix.backend(FakeBackend):
            try:
                matrix.assemble_csr(vals, rowptr, colidx, ncols)
                return 'accept'
            except matrix.MatrixError as e:
                return 'reject'
    paths, complete = explore(run, max_paths=4000, timeout_ms=10000)
    out['paths'] = len(paths); out['exhaustive'] = complete
    r = [z3.Int(f'r_{i}') for i in range(nrows + 1)]; c = [z3.Int(f'c_{i}') for i in range(nnz)]
    wf = wf_formula(r, c, ncols, nnz, nrows)
    for P in paths:
        if P.tag == 'abort': continue
        if P.tag != 'ok':
            out['cex'].append(dict(kind='exception', detail=f'{P.tag}: {type(P.value).__name__}: {P.value}'[:200], pc=[str(x) for x in P.pc][:10])); continue
        s = z3.Solver(); s.set('timeout', 20000)
        s.add(*P.pc, z3.Not(wf) if P.value == 'accept' else wf)
        rr = timed_check(s)
        if rr == z3.unsat: out['unsat'] += 1
        elif rr == z3.unknown: out['unknown'] += 1
        else:
            m = s.model()
            out['cex'].append(dict(kind='accepted-ill-formed' if P.value == 'accept' else 'rejected-well-formed',
                                   rowptr=[m.eval(x, True).as_long() for x in r], colidx=[m.eval(x, True).as_long() for x in c], ncols=ncols, nnz=nnz))
    return out

def replay_validation(cex):
    vals = numpy.arange(1., cex['nnz'] + 1)
    wf = wf_concrete(cex['rowptr'], cex['colidx'], cex['ncols'], cex['nnz'])
    try:
        with matrix.backend('numpy'):
            A = matrix.assemble_csr(vals, numpy.array(cex['rowptr'], dtype=int), numpy.array(cex['colidx'], dtype=int), cex['ncols'])
        accepted = True
    except matrix.MatrixError:
        accepted = False
    except Exception as e:
        return True, f'raised {type(e).__name__}: {e} instead of MatrixError/acceptance'
    if accepted and not wf:
        return True, f'ill-formed input accepted; dense = {A.export("dense").tolist()}'
    if not accepted and wf:
        return True, 'well-formed input rejected'
    return False, f'accepted={accepted} well-formed={wf}'

# ---------------------------------------------------------------- operations

def patterns(nrows, ncols):
    cells = [(i, j) for i in range(nrows) for j in range(ncols)]
    for mask in itertools.product([0, 1], repeat=len(cells)):
        yield [c for c, m in zip(cells, mask) if m]

def csr_of(pattern, nrows):
    rowptr = [0]; colidx = []
    for i in range(nrows):
        cols = [j for (r, j) in pattern if r == i]
        colidx += cols; rowptr.append(len(colidx))
    return numpy.array(rowptr, dtype=int), numpy.array(colidx, dtype=int)

def dense_model(vals, pattern, nrows, ncols, kind='f'):
    d = numpy.zeros((nrows, ncols), object)
    d.fill(0. if kind == 'f' else 0j)
    for v, (i, j) in zip(vals.a, pattern): d[i, j] = d[i, j] + v
    return SArray(d, kind)

OPS = ['submatrix_seq', 'dense', 'matvec', 'matmat', 'T', 'neg', 'scale', 'div', 'add', 'sub', 'diagonal', 'rowsupp', 'submatrix', 'csr', 'coo', 'pickle', 'rmul']

def from_csr(data, colidx, rowptr, nrows, ncols, kind):
    '''specification of what exported CSR data denote (requires concrete index arrays)'''
    d = numpy.zeros((nrows, ncols), object); d.fill(0.)
    data, colidx, rowptr = SArray.wrap(data), SArray.wrap(colidx), SArray.wrap(rowptr)
    rp = [operator_index(x) for x in rowptr.a]; ci = [operator_index(x) for x in colidx.a]
    ok = rp[0] == 0 and rp[-1] == len(ci) == data.shape[0] and all(a <= b for a, b in zip(rp, rp[1:])) and all(0 <= c < ncols for c in ci) \
        and all(x < y for a, b in zip(rp, rp[1:]) for x, y in zip(ci[a:b], ci[a + 1:b]))
    for i in range(nrows):
        for k in range(rp[i], rp[i + 1]): d[i, ci[k]] = d[i, ci[k]] + data.a[k]
    return SArray(d, kind), ok
def operator_index(x):
    import operator
    return operator.index(x)

def _mask_sequence(mask, nrows, ncols):
    rows = numpy.array(mask[0], dtype=bool); cols = numpy.array(mask[1], dtype=bool)
    if nrows == ncols: first = [(rows, rows)]      # square: start with equal row and column masks (as Matrix.solve does)
    else: first = []
    seq = first + [(rows, cols), (rows, ~cols), (rows, numpy.roll(cols, 1)), (~rows, numpy.roll(cols, 1)), (rows, cols), (numpy.roll(rows, 1), cols)]
    return [(r, c) for r, c in seq if not (r.all() and c.all())]

def ops_case(item):
    '''one (shape, pattern, second pattern, kind) case; all ops; returns verdict summary'''
    nrows, ncols, pattern, pattern2, kind, mask = item
    key = f'ops {nrows}x{ncols} {kind} pattern={pattern} other={pattern2} mask={mask}'
    out = dict(key=key, q=dict(exact_unsat=0, sat=0, unknown=0, trivial=0), fails=[], paths=0, struct=[], notes=[])
    rowptr, colidx = csr_of(pattern, nrows); rowptr2, colidx2 = csr_of(pattern2, nrows)
    for op in OPS:
        def run(op=op):
            vals = SArray.symbolic('v', (len(pattern),), kind); vals2 = SArray.symbolic('u', (len(pattern2),), kind)
            x = SArray.symbolic('x', (ncols,), kind); X = SArray.symbolic('X', (ncols, 2), kind); sc = SArray.symbolic('s', (), 'f')
            D = dense_model(vals, pattern, nrows, ncols, kind); D2 = dense_model(vals2, pattern2, nrows, ncols, kind)
            inputs = dict(v=vals, u=vals2, x=x, X=X, s=sc)
            with patched(), matrix.backend('numpy'):
                A = matrix.assemble_csr(vals, rowptr, colidx, ncols)
                if op == 'dense': return A.export('dense'), D, inputs
                if op == 'matvec': return A @ x, numpy.einsum('ij,j->i', D, x), inputs
                if op == 'matmat': return A @ X, numpy.einsum('ij,jk->ik', D, X), inputs
                if op == 'T': return A.T.export('dense'), D.T, inputs
                if op == 'neg': return (-A).export('dense'), -D, inputs
                if op == 'scale': return (A * sc.a[()]).export('dense'), D * sc, inputs
                if op == 'rmul': return (sc.a[()] * A).export('dense'), D * sc, inputs
                if op == 'div':
                    ctx().defined.append(sc.a[()].t != 0)
                    return (A / sc.a[()]).export('dense'), D / sc, inputs
                if op in ('add', 'sub'):
                    B = matrix.assemble_csr(vals2, rowptr2, colidx2, ncols)
                    return ((A + B) if op == 'add' else (A - B)).export('dense'), (D + D2) if op == 'add' else (D - D2), inputs
                if op == 'diagonal':
                    if nrows != ncols:
                        try: A.diagonal()
                        except matrix.MatrixError: return SArray.wrap(numpy.zeros(0)), SArray.wrap(numpy.zeros(0)), inputs
                        raise AssertionError('diagonal of non-square matrix did not raise MatrixError')
                    return A.diagonal(), numpy.einsum('ii->i', D), inputs
                if op == 'rowsupp':
                    ref = numpy.zeros(nrows, object)
                    for i in range(nrows): ref[i] = SBool(z3.Or(*[lift(D.a[i, j]).cast('b').t for j in range(ncols)])) if ncols else False
                    return A.rowsupp(), SArray(ref, 'b'), inputs
                if op == 'submatrix':
                    rows = numpy.array(mask[0], dtype=bool); cols = numpy.array(mask[1], dtype=bool)
                    S = A.submatrix(rows, cols)
                    return S.export('dense'), D[numpy.ix_(rows, cols)] if True else None, inputs
                if op == 'submatrix_seq':
                    # a history on ONE matrix object: the same rows with other columns, the same columns with other rows, then the first selection again
                    outs, refs = [], []
                    for rows, cols in _mask_sequence(mask, nrows, ncols):
                        outs.append(numpy.ravel(A.submatrix(rows, cols).export('dense'))); refs.append(numpy.ravel(D[numpy.ix_(rows, cols)]))
                    return numpy.concatenate(outs) if outs else SArray.wrap(numpy.zeros(0)), numpy.concatenate(refs) if refs else SArray.wrap(numpy.zeros(0)), inputs
                if op == 'csr':
                    data, ci, rp = A.export('csr')
                    d, ok = from_csr(data, ci, rp, nrows, ncols, kind)
                    if not ok: raise AssertionError(f'exported csr is ill-formed: rowptr={rp} colidx={ci}')
                    return d, D, inputs
                if op == 'coo':
                    data, (ri, ci) = A.export('coo')
                    d = numpy.zeros((nrows, ncols), object); d.fill(0.)
                    seen = set()
                    for v, i, j in zip(SArray.wrap(data).a, SArray.wrap(ri).a, SArray.wrap(ci).a):
                        i, j = operator_index(i), operator_index(j)
                        if (i, j) in seen: raise AssertionError('exported coo has a repeated index')
                        seen.add((i, j)); d[i, j] = v
                    return SArray(d, kind), D, inputs
                if op == 'pickle':
                    f, a = A.__reduce__()
                    return f(*a).export('dense'), D, inputs
        paths, complete = explore(run, max_paths=64, timeout_ms=10000)
        out['paths'] += len(paths)
        for P in paths:
            if P.tag == 'abort': continue
            if P.tag == 'unsupported':
                out['notes'].append(f'{op}: unsupported {P.value}'[:120]); continue
            if P.tag == 'exc':
                s = z3.Solver(); s.set('timeout', 10000); s.add(*P.pc, *P.defined)
                if timed_check(s) == z3.sat:
                    out['fails'].append(dict(op=op, what=f'raised {type(P.value).__name__}: {P.value}'[:200], inputs=None))
                continue
            got, ref, inputs = P.value
            if solve.structure(got) != solve.structure(ref):
                out['fails'].append(dict(op=op, what=f'shape/kind {solve.structure(got)} != {solve.structure(ref)}', inputs=None)); continue
            v = solve.equiv(ref, got, pc=P.pc, defined=P.defined, side=P.side, timeout_ms=10000)
            out['q']['exact_unsat'] += v.exact_unsat; out['q']['sat'] += v.sat; out['q']['unknown'] += v.unknown; out['q']['trivial'] += v.trivial
            for idx, m in v.models[:1]:
                out['fails'].append(dict(op=op, what=f'element {idx} differs', inputs=tv.tolist(solve.concretize(m, inputs))))
    return out

def replay_ops(item, fail):
    '''concrete re-execution with the real numpy backend'''
    nrows, ncols, pattern, pattern2, kind, mask = item
    op = fail['op']
    rowptr, colidx = csr_of(pattern, nrows); rowptr2, colidx2 = csr_of(pattern2, nrows)
    dt = float if kind == 'f' else complex
    inp = fail.get('inputs') or {}
    def arr(name, shape, default):
        v = inp.get(name)
        a = numpy.array(v if v is not None else default, dtype=dt if kind == 'f' else None)
        if kind == 'c': a = numpy.array([complex(x) for x in numpy.ravel(v)] if v is not None else default, dtype=complex)
        return a.reshape(shape)
    rng = numpy.random.default_rng(0)
    v = arr('v', (len(pattern),), rng.integers(1, 5, len(pattern)).astype(float))
    u = arr('u', (len(pattern2),), rng.integers(1, 5, len(pattern2)).astype(float))
    x = arr('x', (ncols,), rng.integers(1, 5, ncols).astype(float)); X = arr('X', (ncols, 2), rng.integers(1, 5, (ncols, 2)).astype(float))
    s = float(numpy.ravel(inp.get('s', 2.))[0]) if inp.get('s') is not None else 2.
    D = numpy.zeros((nrows, ncols), dt); D2 = numpy.zeros((nrows, ncols), dt)
    for val, (i, j) in zip(v, pattern): D[i, j] += val
    for val, (i, j) in zip(u, pattern2): D2[i, j] += val
    try:
        with matrix.backend('numpy'):
            A = matrix.assemble_csr(v, rowptr, colidx, ncols)
            B = matrix.assemble_csr(u, rowptr2, colidx2, ncols)
            rows = numpy.array(mask[0], dtype=bool); cols = numpy.array(mask[1], dtype=bool)
            table = dict(dense=lambda: (A.export('dense'), D), matvec=lambda: (A @ x, D @ x), matmat=lambda: (A @ X, D @ X), T=lambda: (A.T.export('dense'), D.T),
                         neg=lambda: ((-A).export('dense'), -D), scale=lambda: ((A * s).export('dense'), D * s), rmul=lambda: ((s * A).export('dense'), D * s),
                         div=lambda: ((A / s).export('dense'), D / s), add=lambda: ((A + B).export('dense'), D + D2), sub=lambda: ((A - B).export('dense'), D - D2),
                         diagonal=lambda: (A.diagonal(), numpy.diag(D)), rowsupp=lambda: (A.rowsupp(), (D != 0).any(axis=1)),
                         submatrix=lambda: (A.submatrix(rows, cols).export('dense'), D[numpy.ix_(rows, cols)]),
                         submatrix_seq=lambda: (numpy.concatenate([numpy.ravel(A.submatrix(r, c).export('dense')) for r, c in _mask_sequence(mask, nrows, ncols)] or [numpy.zeros(0)]),
                                                numpy.concatenate([numpy.ravel(D[numpy.ix_(r, c)]) for r, c in _mask_sequence(mask, nrows, ncols)] or [numpy.zeros(0)])),
                         pickle=lambda: (pickle.loads(pickle.dumps(A)).export('dense'), D))
            def csr():
                data, ci, rp = A.export('csr'); d = numpy.zeros((nrows, ncols), dt)
                if not wf_concrete(rp, ci, ncols, len(data)): return numpy.full((nrows, ncols), numpy.nan), D
                for i in range(nrows):
                    for k in range(rp[i], rp[i + 1]): d[i, ci[k]] += data[k]
                return d, D
            def coo():
                data, (ri, ci) = A.export('coo'); d = numpy.zeros((nrows, ncols), dt)
                if len(set(zip(ri.tolist(), ci.tolist()))) != len(data): return numpy.full((nrows, ncols), numpy.nan), D
                d[ri, ci] = data; return d, D
            table['csr'] = csr; table['coo'] = coo
            if op == 'diagonal' and nrows != ncols:
                try: A.diagonal()
                except matrix.MatrixError: return False, 'MatrixError as expected'
                return True, 'diagonal of non-square matrix did not raise'
            got, ref = table[op]()
    except Exception as e:
        return True, f'{op} raised {type(e).__name__}: {e}'
    got, ref = numpy.asarray(got), numpy.asarray(ref)
    if got.shape != ref.shape or not numpy.allclose(got, ref, rtol=1e-12, atol=1e-12, equal_nan=False):
        return True, f'{op}: got {got.tolist()} expected {ref.tolist()} (v={v.tolist()} u={u.tolist()} x={x.tolist()} s={s})'
    return False, 'agree'

def op_items(tier, seed):
    rng = random.Random(seed)
    items = []
    shapes = [(1, 1), (1, 2), (2, 1), (2, 2), (0, 2), (2, 0), (2, 3), (3, 2)] + ([(3, 3)] if tier == 'thorough' else [])
    for nrows, ncols in shapes:
        pats = list(patterns(nrows, ncols))
        if len(pats) > 64 and tier == 'quick': pats = rng.sample(pats, 24)
        for pat in pats:
            p2 = rng.choice(pats)
            mask = ([rng.random() < .6 for _ in range(nrows)], [rng.random() < .6 for _ in range(ncols)])
            items.append((nrows, ncols, pat, p2, 'f', mask))
            if tier == 'thorough' or rng.random() < .25:
                items.append((nrows, ncols, pat, rng.choice(pats), 'c', ([True] * nrows, [rng.random() < .5 for _ in range(ncols)])))
    if tier == 'quick':
        sq = [(3, 3, rng.choice(list(patterns(3, 3))), rng.choice(list(patterns(3, 3))), 'f', ([True, False, True], [True, True, False])) for _ in range(12)]
        items += sq
    return items

def compress_case(item):
    '''numeric.compress_indices (COO rows -> CSR row pointers) on a symbolic index vector: accepted iff in range and non-decreasing; result[r] = #{k: idx[k] < r}'''
    n, length = item
    out = dict(key=f'compress_indices of {n} symbolic row indices into {length} rows', paths=0, unsat=0, unknown=0, fails=[])
    def run():
        idx = SArray.symbolic('k', (n,), 'i')
        with patched():
            try: return 'ok', numeric.compress_indices(idx, length), idx
            except ValueError: return 'rejected', None, idx
    paths, complete = explore(run, max_paths=400, timeout_ms=10000)
    out['paths'] = len(paths)
    for P in paths:
        if P.tag == 'abort': continue
        if P.tag != 'ok':
            out['fails'].append(dict(what=f'{P.tag}: {str(P.value)[:120]}', model=None)); continue
        kind, r, idx = P.value
        ks = [x.t for x in idx.a]
        wf = z3.And(*[z3.And(k >= 0, k < length) for k in ks], *[a <= b for a, b in zip(ks, ks[1:])])
        if kind == 'rejected': claim = z3.Not(wf)
        else:
            r = SArray.wrap(r)
            if tuple(r.shape) != (length + 1,): out['fails'].append(dict(what=f'result has shape {r.shape}', model=None)); continue
            claim = z3.And(wf, *[lift(r.a[i]).t == z3.Sum(*[z3.If(k < i, 1, 0) for k in ks]) if ks else lift(r.a[i]).t == 0 for i in range(length + 1)])
        st, m = solve.holds(claim, pc=P.pc, timeout_ms=10000)
        if st == 'unsat': out['unsat'] += 1
        elif st == 'unknown': out['unknown'] += 1
        else: out['fails'].append(dict(what=('rejected although well formed' if kind == 'rejected' else 'row pointers do not count the entries of each row'), model=[m.eval(k, model_completion=True).as_long() for k in ks]))
    return out

def replay_compress(item, model):
    n, length = item
    idx = numpy.array(model, dtype=int)
    wf = len(idx) == 0 or (idx.min() >= 0 and idx.max() < length and (numpy.diff(idx) >= 0).all())
    try: r = numeric.compress_indices(idx, length)
    except ValueError: return bool(wf), 'rejected'
    want = numpy.searchsorted(idx, numpy.arange(length + 1))
    if not wf: return True, f'ill-formed indices {idx.tolist()} accepted: {r.tolist()}'
    if not numpy.array_equal(r, want): return True, f'compress_indices({idx.tolist()}, {length}) = {numpy.asarray(r).tolist()}, expected {want.tolist()}'
    return False, 'agree'

def main(argv=None):
    args = harness.parse_args(PID, argv)
    if args.replay:
        import json
        d = json.load(open(args.replay))['replay']
        if d.get('kind') == 'compress':
            ok, detail = replay_compress(tuple(d['item']), d['model']); print('REPRODUCED' if ok else 'not reproduced', detail); return 1 if ok else 0
        ok, detail = replay_validation(d['cex']) if d['kind'] == 'validation' else replay_ops(tuple(d['item']), d['fail'])
        print('REPRODUCED' if ok else 'not reproduced', detail); return 1 if ok else 0
    run = harness.Run(PID, 'other', args,
        '(a) assemble_csr validation is executed on symbolic integer arrays rowptr/colidx; on every path z3 decides "accepted implies well-formed" and "rejected implies ill-formed" against an independent '
        'specification (monotone row pointers from 0 to nnz, 0<=col<ncols, strictly increasing columns per row), for ALL integer index arrays of the stated lengths.  '
        '(b) for every enumerated sparsity pattern (shapes up to 3x3, incl. 0xN and Nx0) and symbolic values the real NumpyMatrix operations run on z3 terms and must equal the dense model for all values.')
    run.stubs = STUBS
    run.assumptions = ['NumPy backend only (SciPy/MKL not installed)', 'values are reals / complex pairs of reals', 'index arrays have dtype int (the dtype.kind test is taken as given)']
    sizes = [(nnz, nrows, ncols) for nnz in range(0, 4) for nrows in (1, 2) for ncols in (1, 2, 3)] if args.tier == 'quick' else \
            [(nnz, nrows, ncols) for nnz in range(0, 5) for nrows in (1, 2, 3) for ncols in (1, 2, 3)]
    if args.tier == 'quick': sizes.append((4, 2, 2))
    run.bounds = dict(validation_sizes='nnz<=%d, nrows<=%d, ncols in {1,2,3}' % (max(s[0] for s in sizes), max(s[1] for s in sizes)), index_values='unbounded integers', operations=OPS)
    with harness.FuncTrace() as ft:
        validation_case((1, 1, 2)); ops_case((2, 2, [(0, 0), (1, 1)], [(0, 1)], 'f', ([True, False], [True, True])))
    run.functions = {n for n in ft.names if 'matrix' in n or 'numeric' in n}
    obligations = discharged = 0
    for out in harness.pmap(validation_case, sizes if not args.only else [], args.jobs, chunksize=1):
        if 'harness_error' in out: run.harness_error(out['harness_error'][:400]); continue
        run.case(out['key']); run.paths += out['paths']
        obligations += out['paths']; discharged += out['unsat']
        run.queries['exact_unsat'] += out['unsat']; run.queries['unknown'] += out['unknown']
        run.sample(dict(case=out['key'], paths=out['paths'], exhaustive=out['exhaustive'], proved=out['unsat']), limit=4)
        if not out['exhaustive'] or out['unknown']: run.unconfirmed(out['key'], f'paths not exhaustive or {out["unknown"]} unknown')
        for c in out['cex']:
            if c['kind'] == 'exception':
                run.unconfirmed(out['key'], c['detail']); continue
            ok, detail = replay_validation(c)
            if ok: run.violation(f'validation:{c["kind"]}:rowptr={c["rowptr"]}:colidx={c["colidx"]}:ncols={c["ncols"]}', f'assemble_csr {c["kind"]}: rowptr={c["rowptr"]} colidx={c["colidx"]} ncols={c["ncols"]}: {detail}', dict(kind='validation', cex=c))
            else: run.unconfirmed(out['key'], f'model did not reproduce: {c} {detail}')
    # vacuity twin: a specification that also allows repeated columns must make "accepted => spec" fail ... here: spec with '<=' must reject-overlap
    tw = z3.Solver(); r = [z3.Int(f'r_{i}') for i in range(3)]; c = [z3.Int(f'c_{i}') for i in range(2)]
    tw.add(wf_formula(r, c, 2, 2, 2), c[0] == c[1], r[1] == 2); run.twin(str(tw.check()) == 'unsat' and solve.satisfiable([wf_formula(r, c, 2, 2, 2)]) == 'sat')
    items = op_items(args.tier, args.seed)
    if args.only: items = [it for it in items if args.only in str(it)]
    run.bounds['operation_cases'] = len(items)
    for out, item in _ops_parallel(items, args.jobs):
        if 'harness_error' in out: run.harness_error(out['harness_error'][:400]); continue
        run.case(out['key'], out['q']['exact_unsat'] + out['q']['sat'] > 0); run.paths += out['paths']
        run.add_queries(out['q'])
        obligations += sum(out['q'].values()); discharged += out['q']['exact_unsat'] + out['q']['trivial']
        run.sample(dict(case=out['key'], queries=out['q']), limit=8)
        for n in out['notes']: run.counters[n[:60]] += 1
        for f in out['fails']:
            ok, detail = replay_ops(item, f)
            if ok: run.violation(f'op:{f["op"]}:{item[0]}x{item[1]}:{item[2]}', f'NumpyMatrix {f["op"]} disagrees with the dense model for pattern {item[2]} ({item[0]}x{item[1]}): {detail}', dict(kind='ops', item=list(item), fail=f))
            else: run.unconfirmed(out['key'], f'{f["op"]}: {f["what"]} did not reproduce ({detail})')
    if not args.only or args.only == 'compress':
        citems = [(n, length) for n in (0, 1, 2, 3, 4) for length in (1, 2, 3) if not (n == 4 and length == 1)]
        for out in harness.pmap(compress_case, citems, args.jobs, chunksize=1):
            if 'harness_error' in out: run.harness_error(out['harness_error'][:400]); continue
            item = [it for it in citems if f'compress_indices of {it[0]} symbolic row indices into {it[1]} rows' == out['key']][0]
            run.case(out['key'], out['unsat'] > 0); run.paths += out['paths']; run.queries['exact_unsat'] += out['unsat']; run.queries['unknown'] += out['unknown']; run.queries['sat'] += len(out['fails'])
            obligations += out['unsat'] + out['unknown'] + len(out['fails']); discharged += out['unsat']
            for f in out['fails']:
                ok, detail = replay_compress(item, f['model']) if f['model'] is not None else (False, f['what'])
                if ok: run.violation(f'compress:{out["key"]}', f'{out["key"]}: {f["what"]}: {detail}', dict(kind='compress', item=list(item), model=f['model'])); break
                else: run.unconfirmed(out['key'], f'{f["what"]}: not reproduced ({detail})')
    return run.finish(dict(obligations=obligations, discharged=discharged, rule='case = one validation size or one (shape, pattern, operand pattern, dtype) over all operations; nontrivial = at least one non-syntactic solver query'))

def _ops_worker(i_item):
    i, item = i_item
    r = ops_case(item); r['_i'] = i
    return r
def _ops_parallel(items, jobs):
    for out in harness.pmap(_ops_worker, list(enumerate(items)), jobs, chunksize=2):
        yield out, items[out['_i']] if '_i' in out else None

if __name__ == '__main__':
    sys.exit(main())
