'''C03 - compiled functions are pure functions of their arguments across calls.

One function generated with cache_const_intermediates=True is called three times with DISTINCT symbolic argument sets
(all change / only some change / same dict object reused); between calls every writable returned array is overwritten
with fresh symbols (a user write).  Each result must equal, for all argument values and all written values, what the
independent interpreter gives for that call's arguments; argument arrays must be left untouched (element identity).'''
import sys, random, warnings, numpy, z3
warnings.simplefilter('ignore')
from symx import harness, progs, tv, solve, interp
from symx.sym import explore, ctx, Unsupported, PathAbort
from symx.sarray import SArray
from symx.run import sym_compile, STUBS
from symx.harness import Timeout, with_timeout
from nutils import evaluable as ev
import treelog

PID = 'C03'
PATTERNS = ['all', 'some', 'same-object', 'failed-first']     # failed-first: the very first call is aborted by an exception (an argument of the wrong shape), then three valid calls

def flat_arrays(r):
    if isinstance(r, (tuple, list)):
        for x in r: yield from flat_arrays(x)
    else: yield r

def sequence(e, names, pattern, f, symbolic=True, concrete=None):
    '''run the 3-call history; returns list of (result_k (copied), args_k, untouched_k)'''
    out = []
    argsets = []
    for k in range(3):
        if symbolic:
            vals, _ = progs.symbolic_args(names, prefix=f'c{k}_' if (pattern in ('all', 'failed-first') or k == 0) else '')
            if pattern == 'some' and k > 0:
                # only the first argument changes, the others keep the values (and array objects) of call 0
                new, _ = progs.symbolic_args(names[:1], prefix=f'c{k}_')
                vals = dict(argsets[0]); vals.update(new)
            elif pattern == 'same-object' and k > 0:
                vals = argsets[0]
        else:
            vals = concrete[k]
        argsets.append(vals)
    if pattern == 'failed-first' and names:
        bad = dict(argsets[0])
        n0 = names[-1]; v0 = bad[n0]
        shape = tuple(v0.shape) + (2,)
        bad[n0] = SArray.symbolic('bad_' + n0, shape, v0.kind) if symbolic else numpy.zeros(shape, dtype=numpy.asarray(v0).dtype)
        try: f(bad)
        except Exception: pass
    writes = []
    for k, vals in enumerate(argsets):
        before = {n: (v.a.copy() if isinstance(v, SArray) else numpy.array(v, copy=True)) for n, v in vals.items()}
        r = f(vals)
        untouched = all((all(p is q for p, q in zip(before[n].flat, v.a.flat)) if isinstance(v, SArray) else numpy.array_equal(before[n], v)) for n, v in vals.items())
        snap = _copy(r)
        out.append((snap, {n: (SArray(before[n], v.kind) if isinstance(v, SArray) else before[n]) for n, v in vals.items()}, untouched))   # arguments as they were at call time
        # user write into every writable returned array
        for j, arr in enumerate(flat_arrays(r)):
            a = arr.a if isinstance(arr, SArray) else arr
            if isinstance(a, numpy.ndarray) and a.flags.writeable and a.size:
                try:
                    if symbolic:
                        w = SArray.symbolic(f'W{k}_{j}', a.shape, arr.kind)
                        a[...] = w.a
                    else:
                        a[...] = (numpy.arange(a.size).reshape(a.shape) + 7 * (k + 1)).astype(a.dtype)
                except ValueError:
                    pass
    return out

def _copy(r):
    if isinstance(r, (tuple, list)): return tuple(_copy(x) for x in r)
    return r.copy() if isinstance(r, (SArray, numpy.ndarray)) else r

def replay(p, pattern, argsets):
    e = progs.build(p)
    names = progs.used_args(p)
    with treelog.set(treelog.NullLog()), numpy.errstate(all='ignore'), warnings.catch_warnings():
        warnings.simplefilter('ignore')
        try:
            f = ev.compile(e, cache_const_intermediates=True)
            concrete = [{k: numpy.array(v) for k, v in a.items()} for a in argsets]
            if pattern == 'same-object': concrete = [concrete[0]] * 3
            if pattern == 'some': concrete = [concrete[0]] + [dict(concrete[0], **{names[0]: c[names[0]]}) for c in concrete[1:]]
            seq = sequence(e, names, pattern, f, symbolic=False, concrete=concrete)
        except Exception as ex:
            return True, f'raised {type(ex).__name__}: {ex}'
        for k, (r, vals, untouched) in enumerate(seq):
            if not untouched: return True, f'call {k} modified its argument arrays'
            fresh = ev.compile(e, cache_const_intermediates=False)({n: numpy.array(v) for n, v in vals.items()})
            if not tv.finite(fresh): return False, 'reference not finite'
            if not tv.same(fresh, r): return True, f'call {k}: cached function returned {tv.tolist(r)}, a fresh function returns {tv.tolist(fresh)}'
    return False, 'agree'

def work(item):
    i, p, pattern = item
    key = progs.show(p) + ' / ' + pattern
    res = dict(key=key, viol=[], unconfirmed=[], q=dict(exact_unsat=0, margin_unsat=0, sat=0, unknown=0, trivial=0), paths=0, status='ok', nontrivial=False)
    try:
        e = progs.build(p)
    except progs.IllTyped:
        res['status'] = 'illtyped'; return res
    names = progs.used_args(p)
    if not names: res['status'] = 'no-arguments'
    try:
        with treelog.set(treelog.NullLog()):
            f = with_timeout(20, lambda: sym_compile(e, cache_const_intermediates=True, object_constants=True))
    except Exception as ex:
        res['status'] = 'compile_failed'; return res
    holder = {}
    def run():
        f.raw.__globals__['first_run'] = True      # every explored path is a fresh history: the function starts in its first-run state
        seq = sequence(e, names, pattern, f, symbolic=True)
        refs = []
        for r, vals, untouched in seq:
            refs.append(interp.denote(e, vals))
        return seq, refs, list(ctx().defined)
    assume = []
    for k in range(3):
        _, a = progs.symbolic_args(names, prefix=f'c{k}_'); assume += a
    _, a = progs.symbolic_args(names, prefix=''); assume += a
    try:
        paths, complete = with_timeout(90, lambda: explore(run, assumptions=assume, max_paths=32 if p in progs.VARLEN else 8, timeout_ms=10000))   # 3 calls x 3 lengths = 27 paths for argument-dependent lengths
    except Timeout:
        res['status'] = 'harness_timeout'; return res
    res['paths'] = len(paths)
    for P in paths:
        if P.tag == 'unsupported': res['status'] = 'unsupported'; res['unsupported'] = str(P.value)[:60]; continue
        if P.tag == 'abort': continue
        if P.tag == 'exc':
            res['status'] = 'raises'; continue
        seq, refs, defined = P.value
        for k, ((r, vals, untouched), ref) in enumerate(zip(seq, refs)):
            if not untouched:
                res['viol'].append((f'call {k} modified its argument arrays: {key}', dict(program=progs.show(p), pattern=pattern, kind='argument-modified', arguments=None))); continue
            if solve.structure(r) != solve.structure(ref):
                res['unconfirmed'].append(f'{key}: structure differs on call {k}'); continue
            try:
                v = solve.equiv(ref, r, pc=P.pc, defined=defined, side=P.side, timeout_ms=10000, margin=1e-9, budget_s=20)
            except Unsupported as ex:
                res['status'] = 'unsupported'; continue
            for kk, n in v.counts().items(): res['q'][kk] += n
            for idx, m in v.models[:1]:
                argsets = [tv.tolist(solve.concretize(m, vv)) for (_, vv, _) in seq]
                ok, detail = replay(p, pattern, [{k2: numpy.array(v2) for k2, v2 in a.items()} for a in argsets])
                if ok: res['viol'].append((f'call {k} of a cached compiled function differs from a fresh evaluation ({pattern}): {progs.show(p)}: {detail}'[:600], dict(program=progs.show(p), pattern=pattern, kind='value', arguments=argsets)))
                else: res['unconfirmed'].append(f'{key}: model for call {k} did not reproduce ({detail})')
    res['nontrivial'] = res['q']['exact_unsat'] + res['q']['sat'] + res['q']['margin_unsat'] > 0
    return res

EXTRA = [
    ('add', ('matvec', ('loop_sum', ('diagonalize', ('insertaxis', ('add', ('tofloat', ('lidx', 'i', 3)), ('cf', 1.0)), 0, 3), 0, 1), ('lidx', 'i', 3)), ('arg', 'x')), ('arg', 'y')),
    ('insertaxis', ('arg', 'x'), 0, 2), ('insertaxis', ('arg', 'x'), -1, 2), ('arg', 'x'), ('cvec', 'fvec3'), ('mul', ('cvec', 'fvec3'), ('cvec', 'fvec3')),
    ('insertaxis', ('mul', ('cvec', 'fvec3'), ('cf', 2.0)), 0, 2), ('transpose', ('insertaxis', ('sin', ('cvec', 'fmat')), 0, 2), 'r'),
    ('tuple_like_add', ) if False else ('add', ('sin', ('cvec', 'fvec3')), ('arg', 'x')),
    ('mul', ('arg', 's'), ('exp', ('cvec', 'fmat'))), ('take', ('exp', ('cvec', 'fmat')), ('arg', 'k'), 0), ('inflate', ('arg', 'x'), ('cvec', 'dup3'), 4, 0),
    ('loop_concat', ('insertaxis', ('mul', ('take', ('arg', 'x'), ('lidx', 'i', 3), 0), ('take', ('sin', ('cvec', 'fvec3')), ('lidx', 'i', 3), 0)), 0, 1), ('lidx', 'i', 3)),
    ('guard', ('sin', ('cvec', 'fvec3'))), ('diagonalize', ('cvec', 'fvec3'), 0, 1), ('ravel', ('insertaxis', ('arg', 'x'), 0, 2), 0),
]

def items(tier, seed):
    rng = random.Random(seed)
    P = list(EXTRA) + list(progs.VARLEN) + list(progs.CORPUS)
    d1 = [p for p, e in progs.typed(progs.depth1())]; rng.shuffle(d1)
    P += d1[:700 if tier == 'quick' else len(d1)]
    d2 = list(progs.depth2(d1[:300] if tier == 'quick' else d1[:3000])); rng.shuffle(d2)
    P += d2[:700 if tier == 'quick' else 20000]
    out = []
    for i, p in enumerate(P):
        pats = PATTERNS if (tier == 'thorough' or i < len(EXTRA) + len(progs.VARLEN) + len(progs.CORPUS)) else [rng.choice(PATTERNS)]
        for pat in pats: out.append((i, p, pat))
    return out

def _lru_worker(i):
    from checks import c03_lru
    return dict(out=list(c03_lru.obligations()) if i == 0 else [])

def main(argv=None):
    args = harness.parse_args(PID, argv)
    if args.replay:
        import json
        d = json.load(open(args.replay))['replay']
        if d.get('kind') == 'lru':
            from checks import c03_lru
            ok, detail = c03_lru.replay(d['views']); print('REPRODUCED' if ok else 'not reproduced', detail); return 1 if ok else 0
        if d['arguments'] is None:
            names = progs.used_args(progs.parse(d['program'])); d['arguments'] = [tv.tolist(progs.default_args(names, k)) for k in range(3)]
        ok, detail = replay(progs.parse(d['program']), d['pattern'], [{k: numpy.array(v) for k, v in a.items()} for a in d['arguments']])
        print('REPRODUCED' if ok else 'not reproduced', detail); return 1 if ok else 0
    run = harness.Run(PID, 'translation_validation', args,
        'A function generated once with cache_const_intermediates=True is called three times with distinct symbolic argument sets (patterns: all arguments change, only one changes, the same dict object is reused); '
        'after each call every writable returned array is overwritten with fresh symbols.  z3 decides, per element and per call, that the result equals the independent denotation of that call\'s arguments for all '
        'argument values and all written values; argument arrays are compared element-identically before/after each call.')
    run.stubs = STUBS + ['oracle: symx.interp']
    run.assumptions = ['3 calls per history: the generated script has two states (first_run true/false); longer histories and mesh-level memo tables (Basis, _locate) are outside the claim', 'floats as reals, ints as mathematical integers']
    I = items(args.tier, args.seed)
    if args.only: I = [it for it in I if args.only in progs.show(it[1])]
    run.bounds = dict(histories=len(I), calls_per_history=3, patterns=PATTERNS, max_paths=8)
    with harness.FuncTrace() as ft:
        for it in I[:3]: work(it)
    run.functions = ft.names
    # vacuity twin: a function that leaks its previous result must be caught (simulated by reusing the first call's result)
    p = ('mul', ('arg', 'x'), ('arg', 'y')); e = progs.build(p); f = sym_compile(e, cache_const_intermediates=True)
    state = {}
    def leaky(vals):
        if 'r' not in state: state['r'] = f(vals)
        return state['r']
    def run_tw():
        state.clear(); seq = sequence(e, ['x', 'y'], 'all', leaky); return seq, [interp.denote(e, v) for _, v, _ in seq]
    paths, _ = explore(run_tw)
    seq, refs = paths[0].value
    run.twin(solve.equiv(refs[1], seq[1][0]).sat > 0)
    for res in harness.pmap(work, I, args.jobs, chunksize=8):
        if 'harness_error' in res:
            run.counters['worker_error'] += 1
            if run.counters['worker_error'] <= 3: run.inconclusive.append('worker error: ' + res['harness_error'][:400])
            continue
        run.counters[res['status']] += 1
        if res['status'] == 'illtyped': continue
        run.case(res['key'], res['nontrivial']); run.add_queries(res['q']); run.paths += res['paths']
        for what, rp in res['viol']: run.violation(res['key'], what, rp)
        for u in res['unconfirmed']: run.unconfirmed(res['key'], u)
        if res['status'] == 'unsupported': run.counters['unsupported:' + res.get('unsupported', '')] += 1
        if res['nontrivial']: run.sample(dict(history=res['key'], queries=res['q']))
    # buffer-keyed memo tables (types.lru_cache, used by transform items that compiled code calls): a hit must imply equal array values
    if not args.only or args.only == 'lru':
        from checks import c03_lru
        hits = 0
        lru_out = []
        for res in harness.pmap(_lru_worker, [0, 1], 2, chunksize=1, case_timeout=240):      # in a freshly forked worker with a wall-clock budget (the main process has a large z3 state by now)
            if isinstance(res, dict) and 'harness_error' in res: run.unconfirmed('lru_cache obligations', res['harness_error'][:300])
            elif isinstance(res, dict): lru_out += res['out']
        for o in lru_out:
            run.case(o['label'], o['hits'] > 0); run.paths += o['paths']; hits += o['hits']
            run.queries['exact_unsat'] += o['unsat']; run.queries['unknown'] += o['unknown']; run.queries['sat'] += len(o['sat'])
            if o['errors'] or not o['exhaustive']: run.unconfirmed(o['label'], f'paths not exhaustive or failed: {o["errors"][:2]}')
            if o['hits']: run.sample(dict(obligation=o['label'], paths=o['paths'], cache_hits=o['hits'], proved=o['unsat']), limit=40)
            for views in o['sat']:
                ok, detail = c03_lru.replay(views)
                if ok: run.violation('lru:' + o['label'], f'types.lru_cache serves a stale value: {detail}'[:600], dict(kind='lru', views=views, program=None, pattern=None, arguments=None)); break
                else: run.unconfirmed(o['label'], f'solver model did not reproduce ({detail})')
        if hits == 0 and lru_out: run.harness_error('lru_cache obligations: no path with a cache hit was explored (vacuous)')
        run.stubs.append('nutils.types.numpy -> proxy whose ndarray is a symbolic array-view class (lru_cache obligations); memory contents are an uninterpreted function')
        run.bounds['lru_cache_views'] = 'two views, 1 or 2 axes of length 1..3, strides multiples of 8 in [-32,32], pointer inside a 512-byte buffer, element types <f8/<i8'
    return run.finish(dict(programs=run.cases, disagreements_checked=run.queries['sat'] + len(run.violations)))

if __name__ == '__main__':
    sys.exit(main())
