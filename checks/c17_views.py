'''C17, arrays: the hash of an ndarray must be a function of the array VALUE (shape, element type, elements in logical order), whatever its memory layout,
and injective in it.  The real nutils_hash runs (hashlib = recorder) on two symbolic array views of one immutable memory: data pointer and strides are
z3 integers, contents are an uninterpreted function, shapes and element types are enumerated.  ndarray.tobytes(order) is modelled after numpy's documented
semantics ('C': logical C order; 'F': logical Fortran order; 'A': Fortran order iff the array is Fortran- but not C-contiguous).  z3 decides
  stability:   equal values  =>  equal pre-images          injectivity:   equal pre-images  =>  equal values.'''
import types as pytypes, numpy, z3, itertools
from symx import solve
from symx.sym import explore, SBool
import nutils.types as ntypes

MEM = z3.Function('mem', z3.IntSort(), z3.RealSort())

class _DT:
    def __init__(s, typestr): s.str = typestr; s.kind = typestr[1]

class Tokens:
    'result of tobytes(): the element values in the order they are serialised'
    def __init__(s, terms): s.terms = terms

class SymArr:
    def __init__(s, name, shape, typestr):
        s.name, s.shape, s.ndim, s.dtype = name, tuple(shape), len(shape), _DT(typestr)
        s.ptr = z3.Int(f'{name}_ptr'); s.strides_t = tuple(z3.Int(f'{name}_s{k}') for k in range(s.ndim))
        s.assume = [s.ptr >= 0, s.ptr <= 256, s.ptr % 8 == 0] + [z3.And(t >= -64, t <= 64, t != 0, t % 8 == 0) for t in s.strides_t]
        # distinct logical entries live at distinct addresses inside the buffer (a real, non-overlapping strided view)
        idxs = list(itertools.product(*[range(n) for n in s.shape]))
        for i in idxs: s.assume.append(z3.And(s.addr(i) >= 0, s.addr(i) <= 2048))
        s.assume.append(z3.Distinct(*[s.addr(i) for i in idxs]) if len(idxs) > 1 else z3.BoolVal(True))
    def addr(s, idx): return s.ptr + sum(int(i) * t for i, t in zip(idx, s.strides_t))
    def _contig(s, order):
        acc, conds = z3.IntVal(8), []
        axes = range(s.ndim - 1, -1, -1) if order == 'C' else range(s.ndim)
        for k in axes:
            if s.shape[k] != 1: conds.append(s.strides_t[k] == acc)
            acc = acc * s.shape[k]
        return z3.And(*conds) if conds else z3.BoolVal(True)
    def tobytes(s, order='C'):
        if order == 'A':
            f_only = bool(SBool(z3.And(s._contig('F'), z3.Not(s._contig('C')))))
            order = 'F' if f_only else 'C'
        idxs = list(itertools.product(*[range(n) for n in s.shape]))
        if order == 'F': idxs.sort(key=lambda i: tuple(reversed(i)))
        return Tokens([MEM(s.addr(i)) for i in idxs])
    def value(s):
        return {i: MEM(s.addr(i)) for i in itertools.product(*[range(n) for n in s.shape])}

class _NP(pytypes.ModuleType):
    def __init__(s): super().__init__('numpy_for_types'); s.ndarray = SymArr
    def __getattr__(s, n): return getattr(numpy, n)

class _Rec:
    def __init__(s, data=b''): s.parts = [data] if data else []
    def update(s, data): s.parts.append(data)
    def digest(s): return s
class _Hashlib:
    sha1 = staticmethod(lambda data=b'': _Rec(data))

def preimage_equal(pa, pb):
    'z3 term: the two recorded pre-images are equal byte strings (same chunking assumed: concrete chunks compared, token chunks element-wise)'
    if len(pa) != len(pb): return z3.BoolVal(False)
    conds = []
    for x, y in zip(pa, pb):
        if isinstance(x, Tokens) and isinstance(y, Tokens):
            if len(x.terms) != len(y.terms): return z3.BoolVal(False)
            conds += [a == b for a, b in zip(x.terms, y.terms)]
        elif isinstance(x, Tokens) or isinstance(y, Tokens): return z3.BoolVal(False)
        elif bytes(x) != bytes(y): return z3.BoolVal(False)
    return z3.And(*conds) if conds else z3.BoolVal(True)

SHAPES = [(2, 2), (2, 3), (3, 2), (4,), (1, 4), (2, 1, 2)]

def obligations(tier='quick'):
    saved = ntypes.numpy, ntypes.hashlib
    ntypes.numpy = _NP(); ntypes.hashlib = _Hashlib
    try:
        pairs = [(s1, s2) for s1 in SHAPES for s2 in SHAPES if s1 == s2 or (numpy.prod(s1) == numpy.prod(s2) and (tier == 'thorough' or (s1, s2) in (((2, 3), (3, 2)), ((4,), (2, 2)), ((4,), (1, 4)))))]
        for s1, s2 in pairs:
            for t1, t2 in (('<f8', '<f8'), ('<f8', '<i8')) if s1 == s2 else (('<f8', '<f8'),):
                def run():
                    a, b = SymArr('A', s1, t1), SymArr('B', s2, t2)
                    return a, b, ntypes.nutils_hash(a).parts, ntypes.nutils_hash(b).parts
                a0, b0 = SymArr('A', s1, t1), SymArr('B', s2, t2)
                paths, complete = explore(run, assumptions=a0.assume + b0.assume, max_paths=16, timeout_ms=10000)
                out = dict(label=f'nutils_hash of array views: shapes {s1} / {s2}, element types {t1} / {t2}', paths=len(paths), exhaustive=bool(complete), unsat=0, unknown=0, sat=[], errors=[])
                for P in paths:
                    if P.tag != 'ok':
                        out['errors'].append(f'{P.tag}: {str(P.value)[:160]}'); continue
                    a, b, pa, pb = P.value
                    same_type = s1 == s2 and t1 == t2
                    va, vb = a.value(), b.value()
                    same_value = z3.And(*[va[i] == vb[i] for i in va]) if same_type else z3.BoolVal(False)
                    peq = preimage_equal(pa, pb)
                    for kind, claim in (('stability', z3.Implies(same_value, peq)), ('injectivity', z3.Implies(peq, same_value))):
                        st, m = solve.holds(claim, pc=list(P.pc) + a.assume + b.assume, timeout_ms=20000)
                        if st == 'unsat': out['unsat'] += 1
                        elif st == 'unknown': out['unknown'] += 1
                        else: out['sat'].append(dict(kind=kind, views=[_model_view(m, v) for v in (a, b)]))
                yield out
    finally:
        ntypes.numpy, ntypes.hashlib = saved

def _model_view(m, v):
    g = lambda t: m.eval(t, model_completion=True).as_long()
    idxs = list(itertools.product(*[range(n) for n in v.shape]))
    vals = {}
    for i in idxs:
        x = m.eval(MEM(v.addr(i)), model_completion=True)
        vals[str(g(v.addr(i)))] = float(x.as_fraction()) if z3.is_rational_value(x) else 0.
    return dict(ptr=g(v.ptr), shape=list(v.shape), strides=[g(t) for t in v.strides_t], typestr=v.dtype.str, memory=vals)

def replay(c):
    '''real numpy and the real hash: build both views over one buffer holding the model's memory contents'''
    import hashlib
    saved = ntypes.numpy, ntypes.hashlib; ntypes.numpy, ntypes.hashlib = numpy, hashlib      # the obligations generator may be suspended with its proxies installed
    try:
        return _replay(c)
    finally:
        ntypes.numpy, ntypes.hashlib = saved

def _replay(c):
    base = numpy.zeros(2048 // 8 + 64)
    va, vb = c['views']
    try:
        for v in (va, vb):
            if any(s % 8 for s in v['strides']) or v['ptr'] % 8: return False, 'model uses unaligned strides (no real float64 view); not constructible'
            for addr, x in v['memory'].items(): base[int(addr) // 8] = x
        def mk(v):
            raw = base if v['typestr'] == '<f8' else base.view('<i8')
            return numpy.lib.stride_tricks.as_strided(raw[v['ptr'] // 8:], shape=tuple(v['shape']), strides=tuple(v['strides']), writeable=False)
        A, B = mk(va), mk(vb)
        ha, hb = ntypes.nutils_hash(A), ntypes.nutils_hash(B)
    except Exception as ex:
        return False, f'views not constructible: {type(ex).__name__}: {ex}'
    same = A.shape == B.shape and A.dtype == B.dtype and numpy.array_equal(A, B)
    if same and ha != hb: return True, f'equal arrays hash differently depending on memory layout: {A.tolist()} with strides {A.strides} vs strides {B.strides}'
    if not same and ha == hb: return True, f'different arrays share a hash: {A.tolist()} (strides {A.strides}) and {B.tolist()} (strides {B.strides})'
    return False, 'agree'

# ---------------------------------------------------------------- seekable streams: the hash must cover the WHOLE content

def stream_obligations():
    '''the real nutils_hash branch for seekable binary streams on a stream whose length is a z3 integer (0 .. 4 chunks + 1): read(n) hands out abstract segments
    [start, end) of the content; the recorded updates must tile [0, length) exactly and the position must be restored.  builtin len is shadowed in nutils.types so
    that code measuring a chunk gets the symbolic length.'''
    import io
    from symx.sym import SInt, lift
    C = 0x20000
    class Seg:
        def __init__(s, a, b): s.a, s.b = a, b
        def __bool__(s): return bool(SBool(s.b > s.a))
        def __len__(s): return SInt(s.b - s.a)
    class SymStream(io.BufferedIOBase):
        def __init__(s): s.L = z3.Int('stream_length'); s.cur = z3.IntVal(7); s.seeks = []
        def seekable(s): return True
        def tell(s): return 7
        def seek(s, pos, whence=0): s.cur = z3.IntVal(pos); s.seeks.append(pos); return pos
        def read(s, n=-1):
            if n is None or n < 0: k = s.L - s.cur
            else: k = z3.If(s.L - s.cur < n, s.L - s.cur, z3.IntVal(n))
            seg = Seg(s.cur, s.cur + k); s.cur = s.cur + k
            return seg
    saved = ntypes.hashlib, getattr(ntypes, 'len', None)
    ntypes.hashlib = _Hashlib; ntypes.len = lambda x: x.__len__() if isinstance(x, Seg) else len(x)
    out = dict(label='nutils_hash of a seekable binary stream of symbolic length', paths=0, unsat=0, unknown=0, sat=[], errors=[], exhaustive=True)
    try:
        def run():
            st = SymStream()
            parts = ntypes.nutils_hash(st).parts
            return parts, st
        assume = [z3.Int('stream_length') >= 0, z3.Int('stream_length') <= 4 * C + 1]
        paths, complete = explore(run, assumptions=assume, max_paths=32, timeout_ms=10000)
        out['paths'] = len(paths); out['exhaustive'] = bool(complete)
        for P in paths:
            if P.tag != 'ok':
                out['errors'].append(f'{P.tag}: {str(P.value)[:160]}'); continue
            parts, st = P.value
            segs = [p for p in parts if isinstance(p, Seg)]
            conds = [z3.BoolVal(bool(st.seeks) and st.seeks[-1] == 7)]
            pos = z3.IntVal(0)
            for sg in segs: conds.append(sg.a == pos); pos = sg.b
            conds.append(pos == st.L)
            stt, m = solve.holds(z3.And(*conds), pc=list(P.pc) + assume, timeout_ms=20000)
            if stt == 'unsat': out['unsat'] += 1
            elif stt == 'unknown': out['unknown'] += 1
            else: out['sat'].append(dict(kind='stream', length=m.eval(st.L, model_completion=True).as_long()))
    finally:
        ntypes.hashlib = saved[0]
        if saved[1] is None: del ntypes.len
        else: ntypes.len = saved[1]
    return out

def replay_stream(c):
    '''two real files of the reported length that differ in their last byte must hash differently'''
    import io, hashlib
    saved = ntypes.numpy, ntypes.hashlib; ntypes.numpy, ntypes.hashlib = numpy, hashlib
    try:
        n = int(c['length'])
        if n == 0: return False, 'empty stream'
        a = io.BytesIO(b'x' * n); b = io.BytesIO(b'x' * (n - 1) + b'y')
        ha, hb = ntypes.nutils_hash(a), ntypes.nutils_hash(b)
    finally:
        ntypes.numpy, ntypes.hashlib = saved
    if ha == hb: return True, f'two streams of {n} bytes that differ in their last byte share nutils_hash {ha.hex()}'
    return False, 'hashes differ'
