'''C06 - static metadata is sound.

(3) integer ranges, inductive step: for every class with an _intbounds_impl a real node is built over int
    arguments whose cached child ranges are overwritten with SYMBOLIC bounds (z3 Ints or +-inf); the real
    _intbounds_impl runs on them under the path explorer; the node is compiled and run on symbolic int arrays
    constrained to the child ranges; z3 must prove lo <= every element <= hi for unbounded integers.
(1,2) shape/dtype/ndim/arguments: programs of the bounded family run symbolically with debug_flags.evalf on
    (the script's own kind/ndim/shape assertions execute on every intermediate) and with exactly the announced
    arguments supplied.'''
import sys, itertools, builtins, warnings, numpy, z3, time, random
warnings.simplefilter('ignore')
from nutils import evaluable as ev, function, debug_flags
import nutils_poly
from symx import harness, progs, tv, solve
from symx.sym import *
from symx.sarray import SArray
from symx.run import sym_compile, STUBS
from symx.solve import flat_elems

PID = 'C06'
INF = float('inf')
C = ev.constant
_cnt = itertools.count()

def iarg(shape=(), dtype=int):
    return ev.Argument(f'ib{next(_cnt)}', tuple(C(n) for n in shape), dtype)

PATTERNS = [('v', 'v'), ('-', 'v'), ('v', '+'), ('-', '+')]

class Spec:
    '''one _intbounds_impl obligation family'''
    def __init__(self, cls, build, shapes, *, nonneg=(), extra=None, kinds=None, label=None, assume_bounds=None, max_paths=96):
        self.cls, self.build, self.shapes, self.nonneg, self.extra = cls, build, shapes, nonneg, extra or (lambda v, b: [])
        self.kinds = kinds or ['i'] * len(shapes)
        self.label = label or cls
        self.assume_bounds = assume_bounds or (lambda b: [])
        self.max_paths = max_paths

def B(c):
    return c.t if isinstance(c, Sym) else z3.BoolVal(bool(c))

def run_spec(spec, mutate=None):
    '''returns dict(obligations, unsat, sat=[...], unknown, paths, aborted)'''
    out = dict(label=spec.label, cls=spec.cls, obligations=0, unsat=0, sat=[], unknown=0, paths=0, aborted=0, notes=[])
    nint = sum(1 for k in spec.kinds if k == 'i')
    for pat in itertools.product(PATTERNS, repeat=nint):
        kids, bnds, assume = [], [], []
        it = iter(pat)
        skip = False
        for i, (sh, kind) in enumerate(zip(spec.shapes, spec.kinds)):
            kid = iarg(sh, {'i': int, 'b': bool, 'f': float}[kind])
            kids.append(kid)
            if kind != 'i':
                bnds.append(None); continue
            lk, uk = next(it)
            l = SInt(z3.Int(f'l{i}')) if lk == 'v' else -INF
            u = SInt(z3.Int(f'u{i}')) if uk == 'v' else INF
            if lk == 'v' and uk == 'v': assume.append(l.t <= u.t)
            if i in spec.nonneg:
                if lk != 'v': skip = True
                else: assume.append(l.t >= 0)
            kid.__dict__['_intbounds'] = (l, u)
            bnds.append((l, u))
        if skip: continue
        vals = {}
        for kid, kind, b in zip(kids, spec.kinds, bnds):
            v = SArray.symbolic(kid.name, tuple(int(n) for n in kid.shape), kind)
            vals[kid.name] = v
            if b:
                for x in v.a.flat:
                    if isinstance(b[0], Sym): assume.append(b[0].t <= x.t)
                    if isinstance(b[1], Sym): assume.append(x.t <= b[1].t)
        assume += spec.extra([vals[k.name] for k in kids], bnds)
        assume += spec.assume_bounds(bnds)
        def run():
            try:
                node = spec.build(*kids)
            except AssertionError:
                raise PathAbort('infeasible: constructor precondition')
            lo, hi = node._intbounds_impl()
            if mutate: lo, hi = mutate(lo, hi)
            f = sym_compile(node, _simplify=False, _optimize=False)
            r = f(vals)
            return lo, hi, r, list(ctx().defined)
        paths, complete = explore(run, assumptions=assume, max_paths=spec.max_paths, timeout_ms=20000)
        out['paths'] += len(paths)
        for P in paths:
            if P.tag == 'abort':
                if 'infeasible' not in str(P.value): out['aborted'] += 1; out['notes'].append(str(P.value)[:80])
                continue
            if P.tag == 'exc' and isinstance(P.value, AssertionError):
                # an assertion of the wrapper/constructor on this path: is the path reachable with consistent child ranges?
                out['notes'].append(f'assertion on path: {P.value}'[:80]); continue
            if P.tag != 'ok':
                out['aborted'] += 1; out['notes'].append(f'{P.tag}: {str(P.value)[:100]}'); continue
            lo, hi, r, d = P.value
            out['obligations'] += 1
            viol = []
            for x in flat_elems(r):
                viol.append(B(lift(x) < lo)); viol.append(B(lift(x) > hi))
            # the wrapper's own assertions: lower <= upper, int-or-inf
            if isinstance(lo, float) and isinstance(hi, float): viol.append(z3.BoolVal(not lo <= hi))
            elif isinstance(lo, float): viol.append(z3.BoolVal(lo != -INF))
            elif isinstance(hi, float): viol.append(z3.BoolVal(hi != INF))
            else: viol.append(B(lift(lo) > hi))
            for b in (lo, hi):
                if not isinstance(b, (int, float, SInt)) or (isinstance(b, float) and b == b and builtins.abs(b) != INF):
                    viol.append(z3.BoolVal(True)); out['notes'].append(f'bound of wrong type {type(b).__name__}')
            s = z3.Solver(); s.set('timeout', 20000)
            s.add(*P.pc, *P.side, *d, z3.Or(*viol))
            r_ = timed_check(s)
            if r_ == z3.unsat: out['unsat'] += 1
            elif r_ == z3.sat:
                m = s.model()
                model = {str(k): str(m[k]) for k in m.decls()}
                out['sat'].append(dict(pattern=str(pat), model=model, lo=str(lo), hi=str(hi), concrete=concrete_cex(spec, pat, m, kids, bnds, vals)))
            else: out['unknown'] += 1
        for kid in kids: kid.__dict__.pop('_intbounds', None)
    return out

def concrete_cex(spec, pat, m, kids, bnds, vals):
    '''turn a model into concrete child bounds + values for replay'''
    cb = []
    for b in bnds:
        if b is None: cb.append(None); continue
        cb.append(tuple(solve.model_value(m, x.t) if isinstance(x, Sym) else ('-inf' if x < 0 else 'inf') for x in b))
    return dict(bounds=cb, values={k: tv.tolist(solve.concretize(m, v)) for k, v in vals.items()})

def replay_cex(spec, cex):
    '''real code, concrete: set the child _intbounds to concrete numbers, call the real _intbounds (with its assertions),
    evaluate the node with real numpy; returns (reproduced, detail)'''
    kids = []
    for i, (sh, kind) in enumerate(zip(spec.shapes, spec.kinds)):
        kid = iarg(sh, {'i': int, 'b': bool, 'f': float}[kind]); kids.append(kid)
        b = cex['bounds'][i]
        if b is not None:
            kid.__dict__['_intbounds'] = tuple({'-inf': -INF, 'inf': INF}.get(x, x) for x in b)
    try:
        node = spec.build(*kids)
    except AssertionError as e:
        return False, f'constructor rejects these child ranges: {e}'
    try:
        lo, hi = node._intbounds
    except AssertionError as e:
        return True, f'_intbounds assertion failed: {e}'
    args = {k.name: numpy.array(v, dtype=k.dtype) for k, v in zip(kids, cex['values'].values())}
    try:
        val = ev.compile(node, _simplify=False, _optimize=False, cache_const_intermediates=False)(args)
    except Exception as e:
        return False, f'evaluation raised {type(e).__name__}: {e}'
    val = numpy.asarray(val)
    if val.size and (val.min() < lo or val.max() > hi):
        return True, f'value {val.tolist()} outside announced range [{lo},{hi}]'
    return False, f'value {val.tolist()} inside [{lo},{hi}]'

def _run_spec_idx(i): return run_spec(SPECS[i])

S2 = (2,)
def nz(i): return lambda v, b: [x.t != 0 for x in v[i].a.flat]
def _inrange_extra(v, b): return [z3.And(x.t >= 0, x.t < v[1].a[()].t) for x in v[0].a.flat]
def _normdim_extra(v, b): return [z3.And(x.t >= -n.t, x.t < n.t, n.t > 0) for n, x in zip(v[0].a.flat, v[1].a.flat)]
def _asserteq_extra(v, b): return [x.t == y.t for x, y in zip(v[0].a.flat, v[1].a.flat)]
def _sizes_extra(v, b): return [x.t >= 0 for x in v[0].a.flat]
def _sorted_extra(v, b): return []

i3 = lambda: ev.loop_index('c06i', 3)
SPECS = [
    Spec('Multiply', lambda a, b: ev.multiply(a, b), [S2, S2]),
    Spec('Add', lambda a, b: ev.add(a, b), [S2, S2]),
    Spec('Add', lambda a, b, c: ev.add(a, b, c), [S2, S2, S2], label='Add/3 terms'),
    Spec('Negative', lambda a: ev.Negative(a), [S2]),
    Spec('Absolute', lambda a: ev.Absolute(a), [S2]),
    Spec('FloorDivide', lambda a, b: ev.FloorDivide(a, b), [S2, S2], extra=nz(1)),
    Spec('Mod', lambda a, b: ev.Mod(a, b), [S2, S2], extra=nz(1)),
    Spec('Minimum', lambda a, b: ev.Minimum(a, b), [S2, S2]),
    Spec('Maximum', lambda a, b: ev.Maximum(a, b), [S2, S2]),
    Spec('Sign', lambda a: ev.Sign(a), [S2]),
    Spec('Sum', lambda a: ev.Sum(a), [(2, 3)]),
    Spec('Sum', lambda a: ev.Sum(a), [(2, 0)], label='Sum/empty axis'),
    Spec('InRange', lambda a, n: ev.InRange(a, n), [S2, ()], extra=_inrange_extra),
    Spec('NormDim', lambda n, a: ev.NormDim(n, a), [S2, S2], extra=_normdim_extra),
    Spec('RavelIndex', lambda a, b: ev.RavelIndex(a, b, C(3), C(4)), [S2, S2]),
    Spec('Inflate', lambda a: ev.Inflate(a, C(numpy.array([2, 0])), C(3)), [S2]),
    Spec('Inflate', lambda a: ev.Inflate(a, C(numpy.array([1, 1])), C(2)), [S2], label='Inflate/duplicate dofs'),
    Spec('Assemble', lambda a: ev.Assemble(a, (C(numpy.array([2, 0])),), (C(3),)), [S2]),
    Spec('Assemble', lambda a: ev.Assemble(a, (C(numpy.array([1, 1])),), (C(2),)), [S2], label='Assemble/duplicate positions'),
    Spec('Assemble', lambda a: ev.Assemble(a, (C(numpy.array([1, 0])), C(numpy.array([0, 0]))), (C(2), C(2))), [(2, 2)], label='Assemble/two index vectors, one with repeats'),
    Spec('Einsum', lambda a, b: ev.Einsum((a, b), ((0, 1), (1,)), (0,)), [(2, 2), S2]),
    Spec('Einsum', lambda a, b: ev.Einsum((a, b), ((0,), (0,)), (0,)), [S2, S2], label='Einsum/no contraction'),
    Spec('AssertEqual', lambda a, b: ev.AssertEqual(ev.Maximum(a, ev.Minimum(a, b)), ev.Maximum(b, ev.Minimum(b, a))), [S2, S2], extra=_asserteq_extra),
    Spec('InsertAxis', lambda a: ev.InsertAxis(a, C(2)), [S2]),
    Spec('Transpose', lambda a: ev.Transpose(a, (1, 0)), [(2, 2)]),
    Spec('TakeDiag', lambda a: ev.TakeDiag(a), [(2, 2)]),
    Spec('Take', lambda a: ev.Take(a, C(numpy.array([1, 1, 0]))), [S2]),
    Spec('_TakeSlice', lambda a: ev._TakeSlice(a, C(1), C(2)), [(3,)]),
    Spec('_Get', lambda a: ev._Get(a, C(1)), [S2]),
    Spec('Ravel', lambda a: ev.Ravel(a), [(2, 2)]),
    Spec('Unravel', lambda a: ev.Unravel(a, C(2), C(2)), [(4,)]),
    Spec('Cast', lambda a: ev.BoolToInt(a), [S2], kinds=['b']),
    Spec('LoopConcatenate', lambda a: ev.loop_concatenate(ev.InsertAxis(ev.Take(a, i3()), C(1)), i3()), [(3,)]),
    Spec('_LoopIndex', lambda a: ev.loop_concatenate(ev.InsertAxis(i3() + ev.Take(a, i3()) * C(0), C(1)), i3()), [(3,)], label='_LoopIndex (via Add/Multiply/LoopConcatenate)'),
    Spec('_SizesToOffsets', lambda a: ev._SizesToOffsets(a), [(3,)], extra=_sizes_extra, nonneg=(0,)),
    Spec('SearchSorted', lambda a: ev.SearchSorted(a, C(numpy.array([-1, 2, 5])), None, 'left'), [S2]),
    Spec('SearchSorted', lambda a: ev.SearchSorted(a, C(numpy.array([-1, 2, 2])), C(numpy.array([0, 2, 1])), 'right'), [S2], label='SearchSorted/right'),
    Spec('ArgSort', lambda a: ev.ArgSort(a), [(3,)]),
    Spec('Find', lambda a: ev.Find(a), [(3,)], kinds=['b']),
    Spec('Range', lambda a: ev.Range(C(3)) + ev.InsertAxis(ev.Take(a, C(0)) * C(0), C(3)), [S2], label='Range (via Add)'),
    Spec('Zeros', lambda a: ev.Zeros((C(2),), int) + a * C(0), [S2], label='Zeros (via Add)'),
    Spec('Constant', lambda a: C(numpy.array([3, -2])) + a * C(0), [S2], label='Constant (via Add)'),
]
# classes whose ranges do not depend on symbolic child ranges in an encodable way; checked by enumeration below or declined
ENUMERATED = {'PolyDegree', 'PolyNCoeffs', 'Array'}
DECLINED = {'TransformIndex': 'needs a transform sequence; range is (0, len-1) of a concrete sequence - covered by C11 lookups',
            'ArrayFromTuple': 'ranges of Eig/tuple outputs: no integer-valued tuple evaluable is constructible from the public constructors'}

def enumerated_checks():
    '''finite enumerations (reported as such): PolyDegree / PolyNCoeffs on concrete child ranges 0..20, Array default'''
    n = bad = 0
    notes = []
    for nvars in (1, 2, 3):
        valid = {nutils_poly.ncoeffs(nvars, d): d for d in range(0, 7)}
        for lo, hi in itertools.combinations_with_replacement(range(0, 30), 2):
            for cls, table in (('PolyDegree', valid), ('PolyNCoeffs', {d: c for c, d in valid.items()})):
                kid = iarg(()); kid.__dict__['_intbounds'] = (lo, hi)
                node = ev.PolyDegree(kid, nvars) if cls == 'PolyDegree' else ev.PolyNCoeffs(nvars, kid)
                blo, bhi = node._intbounds_impl()
                for v, out in table.items():
                    if lo <= v <= hi:
                        n += 1
                        if not blo <= out <= bhi:
                            bad += 1; notes.append(f'{cls} nvars={nvars} child range [{lo},{hi}] value {v} -> {out} outside [{blo},{bhi}]')
    return n, bad, notes

# ---------------------------------------------------------------- obligations 1 and 2 on the program family

def work_meta(item):
    i, p = item
    key = progs.show(p)
    res = dict(key=key, status='ok', viol=[])
    try:
        e = progs.build(p)
    except progs.IllTyped:
        res['status'] = 'illtyped'; return res
    announced = sorted(a.name for a in e.arguments if isinstance(a, ev.Argument))
    names = progs.used_args(p)
    if not set(announced) <= set(names):
        res['viol'].append((f'announces arguments {announced} that the program does not contain: {key}', dict(program=key, kind='arguments')))
    for cfg in (dict(_simplify=False, _optimize=False), dict(_simplify=True, _optimize=True)):
        debug_flags.evalf = True
        try:
            f = sym_compile(e, **cfg)
        except Exception as ex:
            res['status'] = 'compile_exc'; continue
        finally:
            debug_flags.evalf = False
        def run():
            vals, _ = progs.symbolic_args(announced)     # exactly the announced arguments
            return f(vals)
        _, assume = progs.symbolic_args(announced)
        try:
            paths, complete = harness.with_timeout(30, lambda: explore(run, assumptions=assume, max_paths=4, timeout_ms=5000))
        except harness.Timeout:
            res['status'] = 'timeout'; continue
        for P in paths:
            if P.tag == 'exc' and isinstance(P.value, (AssertionError, KeyError)):
                # replay concretely with real numpy and the debug flag on
                ok, detail = replay_meta(p, cfg)
                if ok: res['viol'].append((f'{type(P.value).__name__} in generated script with evalf assertions ({cfg}): {key}: {detail}', dict(program=key, kind='evalf-assert', cfg=cfg)))
            elif P.tag == 'ok':
                s = solve.structure(P.value)
                try:
                    shp = tuple(progs._len(e, i) for i in range(e.ndim))
                except Exception:
                    shp = None
                kind = {bool: 'b', int: 'i', float: 'f', complex: 'c'}[e.dtype]
                if s[0] != kind or (shp is not None and s[1] != shp):
                    ok, detail = replay_meta(p, cfg)
                    if ok: res['viol'].append((f'result {s} does not match announced kind/shape ({kind},{shp}): {key}', dict(program=key, kind='shape-dtype', cfg=cfg)))
            elif P.tag == 'unsupported':
                res['status'] = 'unsupported'
    return res

def replay_meta(p, cfg):
    e = progs.build(p)
    announced = sorted(a.name for a in e.arguments if isinstance(a, ev.Argument))
    debug_flags.evalf = True
    try:
        for variant in range(3):
            try:
                r = ev.compile(e, cache_const_intermediates=False, **cfg)(progs.default_args(announced, variant))
            except (AssertionError, KeyError) as ex:
                return True, f'{type(ex).__name__}: {ex}'
            except Exception as ex:
                continue
            r = numpy.asarray(r)
            kind = {bool: 'b', int: 'i', float: 'f', complex: 'c'}[e.dtype]
            if r.dtype.kind != kind or r.ndim != e.ndim or any(isinstance(n, ev.Constant) and int(n.value) != m for n, m in zip(e.shape, r.shape)):
                return True, f'evaluates to {r.dtype}{r.shape}'
    finally:
        debug_flags.evalf = False
    return False, 'no discrepancy on concrete replay'

def main(argv=None):
    args = harness.parse_args(PID, argv)
    ev.isinstance = lambda o, t: True if (t is int and builtins.isinstance(o, SInt)) else builtins.isinstance(o, t)
    specs = {s.label: s for s in SPECS}
    if args.replay:
        import json
        d = json.load(open(args.replay))['replay']
        if d.get('kind') == 'fnmeta':
            from checks import c07
            lam = (c07.CASES[d['fname']] if d['fname'] != 'compose' else c07.COMPOSE)[d['case']]
            bad = [b for x in c07.flatten(lam(c07.ops_ns(c07.make_leaf('arg')))) for b in c07.announced_arguments_sound(function.Array.cast(x), tuple(d['points']))]
            ok, detail = bool(bad), str(bad)
        elif d.get('kind') == 'intbounds':
            ok, detail = replay_cex(specs[d['label']], d['cex'])
        else:
            ok, detail = replay_meta(progs.parse(d['program']), d.get('cfg') or dict(_simplify=False, _optimize=False))
        print('REPRODUCED' if ok else 'not reproduced', detail); return 1 if ok else 0
    run = harness.Run(PID, 'other', args,
        'Integer-range soundness is an inductive step per node class: the real _intbounds_impl is executed on symbolic child ranges (z3 Ints or +-inf, all 4 finite/infinite patterns per child) '
        'and z3 proves for unbounded integers that every element of the node evaluated (by its real generated script) on any child values inside those ranges lies inside the returned range, '
        'and that the wrapper assertions (lower<=upper, int-or-inf) hold.  Because child ranges are arbitrary the step covers compositions of any depth.  '
        'shape/dtype/ndim/arguments: family programs are run symbolically with the generated evalf assertions switched on and with exactly the announced arguments.')
    run.stubs = STUBS + ['builtin isinstance shadowed in nutils.evaluable (a symbolic int counts as int)', 'cached _intbounds of the int Arguments overwritten in the instance __dict__ with symbolic bounds']
    run.assumptions = ['mathematical integers (no int64 wrap-around)', 'axis lengths are small constants (2..4, one empty axis) in the node instances', 'divisors non-zero, indices in range, AssertEqual operands equal (preconditions of the nodes)']
    # discovery: every class with an _intbounds_impl must be covered, enumerated or declined
    discovered = sorted(n for n, c in vars(ev).items() if builtins.isinstance(c, type) and '_intbounds_impl' in vars(c))
    covered = {s.cls for s in SPECS}
    uncovered = [n for n in discovered if n not in covered and n not in ENUMERATED and n not in DECLINED]
    if uncovered: run.harness_error(f'classes with _intbounds_impl but no obligation: {uncovered}')
    run.bounds = dict(classes_discovered=len(discovered), classes_with_symbolic_obligations=sorted(covered), enumerated=sorted(ENUMERATED), declined=DECLINED, bound_patterns_per_child=4, integers='unbounded')
    obligations = discharged = 0
    S = [s for s in SPECS if not args.only or args.only in s.label]
    with harness.FuncTrace() as ft:
        run_spec(SPECS[0])
    run.functions = {n for n in ft.names if 'intbounds' in n or 'evaluable' in n}
    t0 = time.time()
    for out in harness.pmap(_run_spec_idx, [SPECS.index(s) for s in S], args.jobs, chunksize=1):
        if 'harness_error' in out:
            run.harness_error(out['harness_error'][:500]); continue
        obligations += out['obligations']; discharged += out['unsat']; run.paths += out['paths']
        run.queries['exact_unsat'] += out['unsat']; run.queries['unknown'] += out['unknown']; run.queries['sat'] += len(out['sat'])
        run.case(out['label'], out['obligations'] > 0)
        run.sample(dict(obligation=out['label'], paths=out['paths'], proved=out['unsat'], of=out['obligations']), limit=60)
        if out['obligations'] == 0: run.harness_error(f'{out["label"]}: no obligation was generated (vacuous): {out["notes"][:2]}')
        if out['unknown'] or out['aborted']: run.unconfirmed(out['label'], f'{out["unknown"]} unknown, {out["aborted"]} aborted paths: {out["notes"][:2]}')
        for c in out['sat']:
            ok, detail = replay_cex(specs[out['label']], c['concrete'])
            if ok:
                run.violation(f'intbounds:{out["label"]}:{c["pattern"]}', f'{out["label"]}: inferred integer range unsound for child ranges {c["concrete"]["bounds"]} values {c["concrete"]["values"]}: {detail}',
                              dict(kind='intbounds', label=out['label'], cex=c['concrete']))
            else:
                run.unconfirmed(out['label'], f'solver model did not reproduce: {detail} {c["concrete"]}')
    # vacuity twin: tightening an upper bound by one must be refutable
    for s in (specs['Add'], specs['Absolute'], specs['Mod']):
        tw = run_spec(s, mutate=lambda lo, hi: (lo, hi - 1 if not builtins.isinstance(hi, float) else hi))
        run.twin(len(tw['sat']) > 0)
    n, bad, notes = enumerated_checks()
    run.counters['enumerated_poly_cases'] = n
    for nt in notes[:3]: run.violation('poly:' + nt[:60], nt, dict(kind='poly-enum', note=nt))
    # obligations 1 and 2
    rng = random.Random(args.seed)
    P = list(progs.CORPUS) + [p for p, e in progs.typed(progs.depth1())]
    if args.tier == 'quick':
        rng.shuffle(P); P = P[:1500]
    else:
        d2 = list(progs.depth2(P[len(progs.CORPUS):])); rng.shuffle(d2); P += d2[:20000]
    if args.only: P = []
    known_c01 = 0
    for res in harness.pmap(work_meta, list(enumerate(P)), args.jobs, chunksize=16):
        if 'harness_error' in res:
            run.counters['worker_error'] += 1; continue
        run.counters['meta:' + res['status']] += 1
        if res['status'] == 'illtyped': continue
        run.case(res['key'], True)
        for what, rp in res['viol']: run.violation('meta:' + res['key'], what, rp)
    run.bounds['metadata_programs'] = len(P)
    # obligation 4 (function arrays): every NumPy call signature of the C07 table is built on function.Argument leaves; the arguments, shape and dtype the
    # function array announces are compared with what its lowered expression reads / has (structural check on the real objects, no sampling involved)
    nfn = 0
    if not args.only or args.only == 'fnmeta':
        from checks import c07
        for fname, lams in list(c07.CASES.items()) + [('compose', c07.COMPOSE)]:
            for ci, lam in enumerate(lams):
                try:
                    fres = [function.Array.cast(x) for x in c07.flatten(lam(c07.ops_ns(c07.make_leaf('arg'))))]
                except Exception:
                    continue
                for pts in ((), (2,)):
                    nfn += 1
                    for fa in fres:
                        try:
                            bad = c07.announced_arguments_sound(fa, pts)
                            low = c07.fn.lower(fa, pts)
                            want = tuple(pts) + tuple(int(n) for n in fa.shape)
                            got = tuple(int(n.value) if isinstance(n, ev.Constant) else int(ev.eval_once(n)) for n in low.shape)    # computed axis lengths (e.g. 2*3) are evaluated
                            if got != want: bad.append(f'announced shape {tuple(fa.shape)} but lowered shape {got} for points {pts}')
                            if low.dtype != fa.dtype: bad.append(f'announced dtype {fa.dtype.__name__} but lowered dtype {low.dtype.__name__}')
                        except Exception as ex:
                            bad = []
                        if bad:
                            run.violation(f'fnmeta:{fname}[{ci}]', f'function array {fname}[{ci}] (points_shape {pts}): {"; ".join(bad[:3])}', dict(kind='fnmeta', fname=fname, case=ci, points=list(pts)))
                run.case(f'fnmeta:{fname}[{ci}]', False)
    run.counters['function_array_metadata_cases'] = nfn
    return run.finish(dict(obligations=obligations, discharged=discharged, rule='one case per node-class obligation family / per family program; nontrivial = at least one solver obligation or symbolic run'))

if __name__ == '__main__':
    sys.exit(main())
