'''C11 - element lookup and coordinate maps are consistent (partially applicable).

1. Axis.map/unmap lookup kernel on symbolic integers (shared machinery with C10).
2. canonical / uppermost / promote (built from swapup/swapdown): for every chain of child and edge transforms of the reference
   elements up to a length bound, the rewritten chain denotes the same affine map FOR ALL POINTS (z3, linear real arithmetic
   on a symbolic point) and has the same from/to dimensions.
3. StructuredTransforms index_with_tail(transforms[i] + tail) == (i, tail) (enumerated; auxiliary).'''
import sys, warnings, itertools, numpy, z3, random
warnings.simplefilter('ignore')
from nutils import transform, element, transformseq
from symx import harness, solve as S
from symx.sym import *
from symx.sarray import SArray
from checks import c10

PID = 'C11'

def refs():
    L = element.LineReference()
    return dict(line=L, square=L**2, triangle=element.TriangleReference(), cube=L**3, tetrahedron=element.TetrahedronReference(), prism=element.TriangleReference() * L)

def chains(ref, maxlen):
    '''all chains (tuples of TransformItems) of child/edge transforms starting in ref, length 1..maxlen'''
    out = []
    def rec(r, chain):
        if chain: out.append(tuple(chain))
        if len(chain) == maxlen: return
        for t, cr in zip(r.child_transforms, r.child_refs):
            if cr: rec(cr, chain + [t])
        if r.ndims > 0:
            for t, er in zip(r.edge_transforms, r.edge_refs):
                if er: rec(er, chain + [t])
    rec(ref, [])
    return out

def sym_apply(chain, x):
    '''affine map of a chain evaluated at the symbolic point x (independent of TransformItem.apply and its cache)'''
    for trans in reversed(chain):
        x = numpy.einsum('j,ij->i', x, SArray.wrap(numpy.asarray(trans.linear, dtype=float))) + SArray.wrap(numpy.asarray(trans.offset, dtype=float)) if trans.fromdims else SArray.wrap(numpy.asarray(trans.offset, dtype=float))
    return x

def rewrites(chain):
    yield 'canonical', transform.canonical(chain)
    yield 'uppermost', transform.uppermost(chain)
    for nd in sorted({t.fromdims for t in chain}):
        yield f'promote({nd})', transform.promote(chain, nd)

def chain_case(item):
    name, idx, chain = item
    key = f'{name}:' + ','.join(repr(t) for t in chain)
    out = dict(key=key, q=dict(exact_unsat=0, sat=0, unknown=0, trivial=0), fails=[], n=0)
    fromdims = chain[-1].fromdims
    x = SArray.symbolic('x', (fromdims,))
    ref = sym_apply(chain, x)
    for rname, new in rewrites(chain):
        out['n'] += 1
        try:
            if new[0].todims != chain[0].todims or new[-1].fromdims != fromdims or any(a.fromdims != b.todims for a, b in zip(new, new[1:])):
                out['fails'].append((rname, 'dimensions of the rewritten chain are inconsistent', None)); continue
            got = sym_apply(new, x)
        except Exception as e:
            out['fails'].append((rname, f'{type(e).__name__}: {e}', None)); continue
        v = S.equiv(ref, got, timeout_ms=10000)
        for k in out['q']: out['q'][k] += getattr(v, k)
        for i, m in v.models[:1]:
            out['fails'].append((rname, f'coordinate {i} differs', [float(S.model_value(m, e.t)) for e in x.a]))
        if rname == 'canonical' and not transform.iscanonical(new):
            out['fails'].append((rname, 'result is not canonical', None))
    return out

def replay_chain(chain, rname, point):
    new = dict(rewrites(chain))[rname]
    pts = numpy.array([point if point is not None else [.25] * chain[-1].fromdims], dtype=float)
    a = transform.apply(chain, pts); b = transform.apply(new, pts)
    if new[0].todims != chain[0].todims or new[-1].fromdims != chain[-1].fromdims: return True, 'dimensions differ'
    if rname == 'canonical' and not transform.iscanonical(new): return True, 'not canonical'
    if a.shape != b.shape or not numpy.allclose(a, b, atol=1e-12): return True, f'apply gives {a.tolist()} vs {b.tolist()} at {pts.tolist()}'
    return False, 'agree'

def structured_lookup_cases(tier):
    '''enumerated: StructuredTransforms index_with_tail(transforms[i] + tail) == (i, tail)'''
    from nutils import mesh
    bad = []; n = 0
    confs = [([2], ()), ([3], (0,)), ([2, 3], ()), ([2, 2], (1,)), ([2, 2, 2], ())] if tier == 'quick' else [([2], ()), ([3], (0,)), ([2, 3], ()), ([3, 3], (0, 1)), ([2, 2, 3], (2,)), ([3, 3, 3], ())]
    for shape, periodic in confs:
        topo, geom = mesh.rectilinear([numpy.arange(n_ + 1.) for n_ in shape], periodic=periodic)
        for t in (topo, topo.refined, topo.boundary if not len(periodic) == len(shape) else topo, topo[1:] if shape[0] > 1 else topo, topo.refined.boundary if len(periodic) < len(shape) else topo.refined):
            trs = t.transforms
            ref = t.references[0]
            tails = [()] + [(c,) for c in ref.child_transforms[:2]] + ([(e,) for e in ref.edge_transforms[:1]] if ref.ndims else [])
            for ielem in range(len(trs)):
                for tail in tails:
                    n += 1
                    try:
                        i2, tail2 = trs.index_with_tail(trs[ielem] + tuple(tail))
                    except Exception as ex:
                        bad.append(f'{type(t).__name__}{shape}p{periodic} elem {ielem} tail {tail}: {type(ex).__name__}'); continue
                    if i2 != ielem or tuple(tail2) != tuple(transform.canonical(tail) if False else tail2) or not _same_map(tail, tail2):
                        bad.append(f'{type(t).__name__}{shape}p{periodic} elem {ielem} tail {tail}: got ({i2},{tail2})')
    return n, bad

def _same_map(t1, t2):
    if not t1 and not t2: return True
    if not t1 or not t2: return False
    nd = t1[-1].fromdims
    if t2[-1].fromdims != nd: return False
    pts = numpy.array([[.3, .2, .1][:nd], [.1, .6, .2][:nd]])
    return numpy.allclose(transform.apply(t1, pts), transform.apply(t2, pts))

class Extra:
    EXPLAIN = ('  Chain rewrites: for every chain of child/edge transforms (length bound in bounds) canonical/uppermost/promote are run by the real code and z3 decides, on a symbolic point, '
               'that the rewritten chain is the same affine map (linear real arithmetic; the matrices are dyadic).  index_with_tail round trips on small structured meshes are enumerated (auxiliary).')
    def replay(self, d):
        if d.get('kind') == 'locate':
            from checks import c11_locate
            c = (d['case'][0], tuple(d['case'][1]) if d['case'][0] != 'curvature' else (tuple(d['case'][1][0]), d['case'][1][1]))
            ok, detail = c11_locate.replay(c, None); print('REPRODUCED' if ok else 'not reproduced', detail); return 1 if ok else 0
        R = refs()
        chain = [c for c in chains(R[d['ref']], d['maxlen']) if ','.join(repr(t) for t in c) == d['chain']][0]
        ok, detail = replay_chain(chain, d['rewrite'], d.get('point'))
        print('REPRODUCED' if ok else 'not reproduced', detail); return 1 if ok else 0
    def run(self, run, args, obligations, discharged):
        maxlen = 3 if args.tier == 'quick' else 4
        items = []
        for name, ref in refs().items():
            cs = chains(ref, maxlen if ref.ndims < 3 or args.tier == 'thorough' else 2)
            if args.tier == 'quick' and len(cs) > 600:
                rng = random.Random(args.seed); cs = rng.sample(cs, 600)
            items += [(name, i, c) for i, c in enumerate(cs)]
        run.bounds['chains'] = len(items); run.bounds['chain_length'] = f'<= {maxlen} (3-D references: <= {maxlen if args.tier == "thorough" else 2})'
        run.stubs.append('affine map of a chain composed from the items\' linear/offset attributes on a symbolic point (TransformItem.apply cache bypassed)')
        by = {}
        for out, item in ((chain_case(it), it) for it in items) if args.jobs <= 1 else _par(items, args.jobs):
            run.case(out['key'], out['q']['exact_unsat'] > 0); run.add_queries(out['q'])
            obligations += out['n']; discharged += out['n'] - len(out['fails'])
            run.sample(dict(chain=out['key'], rewrites=out['n'], queries=out['q']), limit=6)
            for rname, what, point in out['fails']:
                ok, detail = replay_chain(item[2], rname, point)
                if ok: run.violation(f'chain:{rname}:{out["key"]}', f'{rname} changes the map of chain {out["key"]}: {what}; {detail}', dict(kind='chain', ref=item[0], maxlen=maxlen, chain=','.join(repr(t) for t in item[2]), rewrite=rname, point=point))
                else: run.unconfirmed(out['key'], f'{rname}: {what} did not reproduce ({detail})')
        # twin: a chain compared with a different chain must be sat
        R = refs()['square']
        c1, c2 = (R.child_transforms[0],), (R.child_transforms[1],)
        x = SArray.symbolic('x', (2,)); run.twin(S.equiv(sym_apply(c1, x), sym_apply(c2, x)).sat > 0)
        # locate() on structured topologies: the closed-form path (real _asaffine/_locate on a geometry known only through a symbolic uniform sample)
        if not args.only or args.only == 'locate':
            from checks import c11_locate
            closed = 0
            for c in c11_locate.cases(args.tier):
                o = c11_locate.run_case(c)
                run.case(o['label'], o['unsat'] > 0); run.paths += o['paths']; closed += o['closed']
                run.queries['exact_unsat'] += o['unsat']; run.queries['unknown'] += o['unknown']; run.queries['sat'] += len(o['sat'])
                obligations += o['unsat'] + o['unknown'] + len(o['sat']); discharged += o['unsat']
                if o['errors'] or o['unknown'] or not o.get('exhaustive', True): run.unconfirmed(o['label'], f'{o["errors"][:2]} unknown={o["unknown"]}')
                run.sample(dict(obligation=o['label'], paths=o['paths'], proved=o['unsat']), limit=30)
                for cex in o['sat']:
                    ok, detail = c11_locate.replay(c, cex)
                    cj = [c[0], list(c[1]) if c[0] != 'curvature' else [list(c[1][0]), c[1][1]]]
                    if ok: run.violation('locate:' + o['label'], f'{o["label"]}: {cex["label"]}: {detail}'[:600], dict(kind='locate', case=cj)); break
                    else: run.unconfirmed(o['label'], f'{cex["label"]}: not reproduced through Topology.locate ({detail})')
            if closed == 0: run.harness_error('locate obligations: the closed-form path was never taken (vacuous)')
            run.stubs += ['topo.sample -> stub whose eval() maps the real uniform sample points (exact rationals) through a symbolic axis-aligned quadratic geometry', 'TransformChainsTopology._locate (generic Newton path) -> marker exception: its numerics are declined', 'nutils.topology.numpy -> symx.npproxy']
        n, bad = structured_lookup_cases(args.tier)
        run.counters['structured_lookup_enumerated'] = n
        for b in bad[:5]: run.violation('lookup:' + b[:80], 'index_with_tail(transforms[i] + tail) != (i, tail): ' + b, dict(kind='lookup', note=b))
        return obligations, discharged

def _worker(it):
    r = chain_case(it[1]); r['_i'] = it[0]; return r
def _par(items, jobs):
    for out in harness.pmap(_worker, list(enumerate(items)), jobs, chunksize=32):
        if 'harness_error' in out: raise RuntimeError(out['harness_error'])
        yield out, items[out['_i']]

def main(argv=None):
    return c10.main(argv, pid=PID, prop='C11', extra=Extra())

if __name__ == '__main__':
    sys.exit(main())
