'''C04 - symbolic derivatives equal the true derivatives.

evaluable.derivative(f, x) (real code; compiled by the real generator with all passes) is evaluated on z3-symbolic
arguments and contracted with a symbolic direction dx; the oracle is forward-mode dual-number evaluation of f by the
independent interpreter.  z3 decides J.dx == tangent for all argument values and directions (away from kinks).
Integer/boolean programs: the derivative must be identically zero with shape f.shape + x.shape.  Second derivatives are
covered by feeding first derivatives back in as programs.'''
import sys, random, warnings, numpy, z3
warnings.simplefilter('ignore')
from symx import harness, progs, tv, solve, interp, dual
from symx.sym import explore, ctx, Unsupported, PathAbort, lift
from symx.sarray import SArray
from symx.run import sym_compile, STUBS
from symx.harness import Timeout, with_timeout
from nutils import evaluable as ev
import treelog
from checks import c04_custom

PID = 'C04'

def float_args(p):
    return [n for n in progs.used_args(p) if progs.ARGS[n][1] == float]

def build(p, order):
    '''order 1: f ; order 2: d f / d x0 (x0 = first float argument) as the function to differentiate'''
    e = progs.build(p)
    if order == 2:
        fa = float_args(p)
        if not fa: raise progs.IllTyped
        e = ev.derivative(e, progs.arg(fa[0]))
    if order == 3:      # the factored (Monomial) form of a polynomial program: its derivative must be the derivative of the program
        try:
            e = ev.factor(e)
        except Exception as ex:
            raise progs.IllTyped(f'factor: {ex}')
    return e

def fd_replay(p, order, wrt, args, direction):
    '''concrete confirmation on the real code: central finite differences of the real evaluation vs the real derivative'''
    e = build(p, order)
    x = progs.arg(wrt)
    J = ev.derivative(e, x)
    with numpy.errstate(all='ignore'), warnings.catch_warnings():
        warnings.simplefilter('ignore')
        try:
            Jv = ev.eval_once(J, arguments=args)
        except Exception as ex:
            return True, f'evaluating the derivative raised {type(ex).__name__}: {ex}'
        f0 = ev.eval_once(e, arguments=args, _simplify=False, _optimize=False)
        if e.dtype != float:
            return (True, f'derivative of a {e.dtype.__name__} expression is not zero: {tv.tolist(Jv)}') if numpy.any(Jv != 0) or Jv.shape != f0.shape + args[wrt].shape else (False, 'zero')
        d = numpy.asarray(direction, dtype=float).reshape(args[wrt].shape)
        lhs = numpy.tensordot(Jv, d, axes=d.ndim) if d.ndim else Jv * d
        errs = []
        for h in (1e-4, 1e-5, 1e-6):
            ap = dict(args); am = dict(args)
            ap[wrt] = args[wrt] + h * d; am[wrt] = args[wrt] - h * d
            fp = ev.eval_once(e, arguments=ap, _simplify=False, _optimize=False); fm = ev.eval_once(e, arguments=am, _simplify=False, _optimize=False)
            errs.append(numpy.max(numpy.abs((fp - fm) / (2 * h) - lhs), initial=0.))
    if not all(numpy.isfinite(errs)) or not numpy.isfinite(lhs).all(): return False, 'not finite'
    scale = max(1., float(numpy.max(numpy.abs(lhs), initial=0.)))
    if min(errs) > 1e-4 * scale:
        return True, f'directional derivative {tv.tolist(lhs)} but finite differences differ by {min(errs):.3g} (h=1e-4..1e-6)'
    return False, f'finite differences agree ({min(errs):.2g})'

def work(item):
    i, p, order = item
    if order == 'custom':
        return c04_custom.case(p)
    key = progs.show(p) + (f' [d/d{(float_args(p) or ["?"])[0]}]' if order == 2 else ' [factored]' if order == 3 else '')
    res = dict(key=key, viol=[], unconfirmed=[], q=dict(exact_unsat=0, margin_unsat=0, sat=0, unknown=0, trivial=0), paths=0, status='ok', nontrivial=False)
    try:
        e = build(p, order)
    except progs.IllTyped:
        res['status'] = 'illtyped'; return res
    except Exception as ex:
        res['status'] = 'derivative_raises'; res['note'] = f'{type(ex).__name__}: {ex}'[:100]; return res
    names = progs.used_args(p)
    fa = float_args(p)
    if not fa: res['status'] = 'no-float-argument'; return res
    e_oracle = progs.build(p) if order == 3 else e
    if e.dtype == complex: res['status'] = 'complex-declined'; return res
    for wrt in fa:
        x = progs.arg(wrt)
        try:
            J = with_timeout(30, lambda: ev.derivative(e, x))
        except NotImplementedError:
            res['status'] = 'not-implemented'; continue
        except Timeout:
            res['status'] = 'derivative_timeout'; continue
        except Exception as ex:
            if 'caught in a loop' in str(ex): res['status'] = 'simplifier_loop'; continue
            res['viol'].append((f'derivative raised {type(ex).__name__}: {ex}: {key} wrt {wrt}'[:300], dict(program=progs.show(p), order=order, wrt=wrt, kind='raises'))); continue
        xshape = progs.ARGS[wrt][0]
        if J.ndim != e.ndim + len(xshape) or J.dtype != e.dtype:
            res['viol'].append((f'derivative has wrong ndim/dtype: {key} wrt {wrt}', dict(program=progs.show(p), order=order, wrt=wrt, kind='static'))); continue
        try:
            with treelog.set(treelog.NullLog()):
                fJ = with_timeout(30, lambda: sym_compile(J))
        except Exception as ex:
            res['status'] = 'compile_failed'; continue
        def run():
            vals, _ = progs.symbolic_args(names)
            dx = SArray.symbolic('d' + wrt, xshape)
            Jv = fJ(vals)
            d0 = list(ctx().defined)
            if e.dtype != float:
                return 'zero', Jv, None, vals, dx, d0
            nd = len(xshape)
            lhs = numpy.sum((Jv * dx).reshape(Jv.shape[:Jv.ndim - nd] + (-1,)), axis=-1) if nd else Jv * dx
            dvals = dict(vals); dvals[wrt] = dual.seed(vals[wrt], dx)
            r = interp.denote(e_oracle, dvals)
            return 'dual', lhs, dual.tangent(r), vals, dx, list(ctx().defined)
        _, assume = progs.symbolic_args(names)
        try:
            paths, complete = with_timeout(90, lambda: explore(run, assumptions=assume, max_paths=8, timeout_ms=10000))
        except Timeout:
            res['status'] = 'harness_timeout'; continue
        res['paths'] += len(paths)
        for P in paths:
            if P.tag == 'unsupported': res['status'] = 'unsupported'; res['unsupported'] = str(P.value)[:60]; continue
            if P.tag == 'abort': continue
            if P.tag == 'exc': res['status'] = 'raises'; continue
            mode, lhs, tang, vals, dx, defined = P.value
            if mode == 'zero':
                ref = SArray.wrap(numpy.zeros(lhs.shape, lhs.dtype))
                want_shape = tuple(progs._len(e, k) for k in range(e.ndim)) + tuple(xshape)
                if tuple(lhs.shape) != want_shape:
                    res['viol'].append((f'derivative has shape {lhs.shape}, expected {want_shape}: {key} wrt {wrt}', dict(program=progs.show(p), order=order, wrt=wrt, kind='shape'))); continue
                tang, lhs = ref, lhs
            if solve.structure(tang)[1] != solve.structure(lhs)[1]:
                res['viol'].append((f'derivative contracted shape {lhs.shape} differs from function shape {tang.shape}: {key} wrt {wrt}', dict(program=progs.show(p), order=order, wrt=wrt, kind='shape'))); continue
            try:
                v = solve.equiv(tang, lhs, pc=P.pc, defined=defined, side=P.side, timeout_ms=10000 if order == 1 else 5000, margin=1e-9, budget_s=20)
            except Unsupported:
                res['status'] = 'unsupported'; continue
            for kk, n in v.counts().items(): res['q'][kk] += n
            detail = ''
            for idx, m in v.models:
                args = {k: numpy.asarray(a) for k, a in solve.concretize(m, vals).items()}
                direction = solve.concretize(m, dx)
                ok, detail = fd_replay(p, order, wrt, args, direction)
                if ok:
                    res['viol'].append((f'derivative of {key} wrt {wrt} is wrong at {tv.tolist(args)} direction {tv.tolist(direction)}: {detail}'[:600],
                                        dict(program=progs.show(p), order=order, wrt=wrt, kind='value', arguments=tv.tolist(args), direction=tv.tolist(direction))))
                    break
            else:
                if v.models: res['unconfirmed'].append(f'{key} wrt {wrt}: model did not reproduce ({detail})')
    res['nontrivial'] = res['q']['exact_unsat'] + res['q']['sat'] + res['q']['margin_unsat'] > 0
    if res['viol']: res['core'] = 'derivative:' + progs.skeleton(p) + (':order2' if order == 2 else '')
    return res

EXTRA = [
    ('add', ('sum', ('cube', ('arg', 'x')), 0), ('mul', ('get', ('arg', 'x'), 0, 0), ('get', ('arg', 'x'), 0, 1))),
    ('add', ('mul', ('sin', ('arg', 'x')), ('cos', ('mul', ('get', ('arg', 'x'), 0, 0), ('arg', 'x')))), ('exp', ('arg', 'x'))),
    ('inv', ('arg', 'Q')), ('mul', ('det', ('arg', 'Q')), ('sum', ('arg', 'w'), 0)), ('det', ('arg', 'M')), ('inv', ('arg', 'M')),
    ('div', ('sqrt', ('add', ('sum', ('square', ('arg', 'x')), 0), ('cf', 1.0))), ('add', ('get', ('arg', 'x'), 0, 1), ('cf', 3.0))),
    ('mul', ('abs', ('arg', 'x')), ('arg', 'x')), ('polyval1', ('arg', 'x'), ('arg', 'y')), ('polyval2', ('arg', 'B'), ('arg', 'M')), ('legendre', ('arg', 'x'), 3),
    ('loop_sum', ('mul', ('take', ('arg', 'x'), ('lidx', 'i', 3), 0), ('take', ('arg', 'M'), ('lidx', 'i', 3), 0)), ('lidx', 'i', 3)),
    ('loop_concat', ('insertaxis', ('mul', ('take', ('arg', 'x'), ('lidx', 'i', 3), 0), ('take', ('arg', 'x'), ('lidx', 'i', 3), 0)), 0, 1), ('lidx', 'i', 3)),
    ('inflate', ('mul', ('arg', 'x'), ('arg', 'x')), ('cvec', 'dup3'), 4, 0), ('take', ('mul', ('arg', 'x'), ('arg', 'y')), ('arg', 'k'), 0),
    ('choose', ('arg', 'p'), ('mul', ('arg', 'x'), ('arg', 'x')), ('sin', ('arg', 'x'))), ('pow', ('exp', ('arg', 'x')), ('arg', 'y')), ('arctan2', ('arg', 'x'), ('arg', 'y')),
    ('min', ('arg', 'x'), ('mul', ('arg', 'y'), ('arg', 'y'))), ('max', ('sin', ('arg', 'x')), ('arg', 'y')), ('tanh', ('mul', ('arg', 's'), ('arg', 'x'))), ('arcsin', ('mul', ('arg', 's'), ('arg', 'x'))),
    ('toint', ('gt0', ('arg', 'x'))), ('sign', ('arg', 'x')), ('mul', ('tofloat', ('arg', 'j')), ('arg', 'x')),
]

def items(tier, seed):
    rng = random.Random(seed)
    P = list(EXTRA) + list(progs.CORPUS)
    d1 = [p for p, e in progs.typed(progs.depth1()) if float_args(p)]; rng.shuffle(d1)
    P += d1[:450 if tier == 'quick' else len(d1)]
    d2 = [p for p in progs.depth2(d1[:300] if tier == 'quick' else d1[:4000])]; rng.shuffle(d2)
    P += d2[:300 if tier == 'quick' else 30000]
    for _ in range(60 if tier == 'quick' else 2000):
        P.append(progs.random_program(rng, rng.choice([3, 4]), leaves=progs.FLEAVES + progs.XLEAVES + [('arg', 'k'), ('arg', 'n')]))
    # targeted structural family: structural constructors over equal-length operands, multi-factor products (quick: seeded sample of levels 1 and 2; thorough: all)
    S1 = [p for p, e in progs.typed(progs.structured(1)) if float_args(p)]
    S2 = [p for p, e in progs.typed(progs.structured(2)) if float_args(p) and p not in set(S1)]; rng.shuffle(S2)
    rng.shuffle(S1)
    P += (S1[:800] + S2[:200]) if tier == 'quick' else (S1 + S2)
    out = [(i, p, 1) for i, p in enumerate(P)]
    n2 = len(EXTRA) + (120 if tier == 'quick' else 5000)
    out += [(i, p, 2) for i, p in enumerate(P[:n2])]
    out += [(i, p, 3) for i, p in enumerate(POLY)]
    out += [(i, c, 'custom') for i, c in enumerate(c04_custom.cases(tier))]
    return out

# polynomial programs for the factored form (evaluable.factor -> Monomial nodes); arguments with >= 3 axes of unequal leading lengths matter for the index ravelling
POLY = [
    ('mul', ('arg', 'P'), ('arg', 'P')), ('sum', ('mul', ('mul', ('arg', 'P'), ('arg', 'P')), ('arg', 'P')), 1), ('mul', ('sum', ('mul', ('arg', 'P'), ('arg', 'P')), 0), ('insertaxis', ('arg', 'x'), 1, 2)),
    ('mul', ('arg', 'H'), ('arg', 'H')), ('sum', ('mul', ('arg', 'H'), ('insertaxis', ('insertaxis', ('arg', 'u'), 1, 2), 2, 3)), 2), ('mul', ('arg', 'K'), ('transpose', ('arg', 'K'), 'r')),
    ('mul', ('arg', 'T'), ('arg', 'U')), ('sum', ('mul', ('arg', 'T'), ('arg', 'T')), 0), ('add', ('mul', ('arg', 'x'), ('arg', 'y')), ('cube', ('arg', 'x'))), ('matvec', ('mul', ('arg', 'M'), ('arg', 'M')), ('arg', 'x')),
    ('mul', ('get', ('arg', 'P'), 1, 2), ('get', ('arg', 'P'), 1, 0)), ('mul', ('take', ('arg', 'P'), ('cvec', 'perm3'), 1), ('arg', 'P')), ('mul', ('arg', 's'), ('mul', ('arg', 'B'), ('arg', 'B'))),
]

def main(argv=None):
    args = harness.parse_args(PID, argv)
    if args.replay:
        import json
        d = json.load(open(args.replay))['replay']
        if 'item' in d:     # user-defined operation
            if d['kind'] == 'value': ok, detail = c04_custom.replay(tuple(d['item']), {k: numpy.array(v) for k, v in d['arguments'].items()}, numpy.array(d['direction']))
            else:
                r = c04_custom.case(tuple(d['item'])); ok, detail = bool(r['viol']), str(r['viol'][:1])
            print('REPRODUCED' if ok else 'not reproduced', detail); return 1 if ok else 0
        p = progs.parse(d['program'])
        if d['kind'] == 'value':
            ok, detail = fd_replay(p, d['order'], d['wrt'], {k: numpy.array(v) for k, v in d['arguments'].items()}, d['direction'])
        else:
            r = work((0, p, d['order'])); ok, detail = bool(r['viol']), str(r['viol'][:1])
        print('REPRODUCED' if ok else 'not reproduced', detail); return 1 if ok else 0
    run = harness.Run(PID, 'translation_validation', args,
        'For every differentiable program f of the family and every float argument x the real evaluable.derivative(f, x) is compiled (all passes) and run on z3-symbolic values; its contraction with a symbolic '
        'direction is compared, per element and for ALL argument values and directions away from kinks, with the tangent computed by forward-mode dual numbers in an independent interpreter.  '
        'Non-float programs must have an identically zero derivative of shape f.shape+x.shape.  Second derivatives: first derivatives are fed back in as programs.  '
        'A solver counterexample is reported only if central finite differences of the real evaluation confirm it.')
    run.stubs = STUBS + ['oracle: dual numbers (symx.dual) through symx.interp; transcendental derivatives are the textbook ones on uninterpreted symbols']
    run.assumptions = ['kinks excluded by side conditions (abs/sign at 0, min/max at ties)', 'real differentiation only (complex/holomorphic derivatives are not implemented in nutils and declined)', 'user-defined operations: the chain-rule plumbing of function.Custom is checked on a handful of operations defined by the harness (checks/c04_custom.py); arbitrary user evalf code is outside the claim']
    I = items(args.tier, args.seed)
    if args.only: I = [it for it in I if args.only in (progs.show(it[1]) if it[2] != 'custom' else ':'.join(map(str, it[1])))]
    run.bounds = dict(cases=len(I), orders='1 (all), 2 (subset)', max_paths=8, matrix_sizes='inverse/determinant 2x2 and 3x3')
    with harness.FuncTrace() as ft:
        for it in I[:3]: work(it)
        work((0, ('custom', 'mul(x,x^2)', 'x', 1), 'custom'))
    run.functions = ft.names
    # vacuity twin: a wrong derivative (f+x has derivative of f) must be caught
    e = progs.build(('mul', ('arg', 'x'), ('arg', 'x'))); J = ev.derivative(e, progs.arg('x'))
    fJ = sym_compile(J * ev.astype(2, float) if False else ev.multiply(J, ev.constant(2.)))
    def tw():
        vals, _ = progs.symbolic_args(['x']); dx = SArray.symbolic('dx', (3,))
        Jv = fJ(vals); lhs = numpy.sum(Jv * dx, axis=-1)
        r = interp.denote(e, dict(x=dual.seed(vals['x'], dx)))
        return lhs, dual.tangent(r)
    paths, _ = explore(tw); lhs, tang = paths[0].value
    run.twin(solve.equiv(tang, lhs).sat > 0)
    slow = []
    for res in harness.pmap(work, I, args.jobs, chunksize=4, case_timeout=60 if args.tier == 'quick' else 300):
        if 'harness_error' in res:
            run.counters['worker_error'] += 1
            if run.counters['worker_error'] <= 3: run.inconclusive.append('worker error: ' + res['harness_error'][:500])
            continue
        run.counters[res['status']] += 1
        if res['status'] in ('illtyped', 'no-float-argument'): continue
        run.case(res['key'], res['nontrivial']); run.add_queries(res['q']); run.paths += res['paths']
        for what, rp in res['viol']: run.violation(res.get('core') or res['key'], what, rp)
        for u in res['unconfirmed']: run.unconfirmed(res['key'], u)
        if res['status'] == 'unsupported': run.counters['unsupported:' + res.get('unsupported', '')] += 1
        if res['status'] == 'derivative_raises': run.counters['raises:' + res.get('note', '')[:50]] += 1
        if res['nontrivial']: run.sample(dict(program=res['key'], queries=res['q']))
        slow.append((res.get('_wall', 0), res['key'], res['status']))
    run.cov['slowest_cases'] = [dict(seconds=w, case=k[:160], status=st) for w, k, st in sorted(slow, reverse=True)[:12]]
    return run.finish(dict(programs=run.cases, disagreements_checked=run.queries['sat'] + len(run.violations)))

if __name__ == '__main__':
    sys.exit(main())
