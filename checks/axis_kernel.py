'''Structured index bookkeeping (transformseq.Axis / DimAxis / IntAxis) on symbolic i, j, mod, element and interface
indices: the 1-D facts that tensorise to boundary / interface / refinement / lookup consistency of structured topologies.
Shared by C10 (conservation: every interior face once, between its two neighbours; boundary = the two end faces) and
C11 (lookup round trip).  All statements are written modulo `mod` when mod != 0.'''
import z3, builtins
from nutils import transformseq as ts
from symx.sym import *
from symx import solve as S

STUBS = ['builtin len shadowed in nutils.transformseq (lengths stay symbolic)', 'slice(a,b).indices(n) modelled as (a,b,1) for 0<=a<b<=n (isinstance shadowed accordingly)']

CONCRETE = {}     # name -> int : when non-empty, V() returns plain Python ints (replay on the real classes with real integers)
def V(n): return CONCRETE[n] if CONCRETE else SInt(z3.Int(n))
def T(x): return lift(x).t
def setenv(concrete=None):
    global i, j, mod, e, t, t2, p
    CONCRETE.clear()
    if concrete: CONCRETE.update({k: int(concrete.get(k, 0)) for k in ('i', 'j', 'mod', 'e', 't', 't2', 'p', 'a', 'b', 'c', 'k')})
    i, j, mod, e, t, t2, p = (V(n) for n in ('i', 'j', 'mod', 'e', 't', 't2', 'p'))
setenv()

def axis_inv(periodic=None, nonempty=True):
    '''representation invariant of an axis as created by StructuredTopology and preserved by getitem/refined'''
    inv = [T(i) < T(j) if nonempty else T(i) <= T(j), z3.Or(T(mod) == 0, z3.And(T(mod) > 0, T(i) >= 0, T(j) <= T(mod)))]
    if periodic is True: inv += [T(mod) == T(j) - T(i)]
    return inv

def eqmod(a, b, m=None):
    """a == b, modulo m (default: the axis modulus) when m != 0; returns SBool / bool.  Forks on m == 0."""
    m = mod if m is None else m
    if m == 0: return a == b
    return (a - b) % m == 0

def _len(x): return x.__len__()

def NOT(x): return ~x if isinstance(x, Sym) else (not x)

def obligations():
    '''list of (name, assumptions, fn) ; fn() runs real code on symbols and returns [(label, claim SBool)]'''
    O = []
    # ---- C11: lookup round trip
    def roundtrip():
        ax = ts.Axis(i, j, mod)
        idx = ax.map(e)
        return [('unmap(map(e)) == e', ax.unmap(idx) == e),
                ('map(e) is the absolute index i+e (mod mod)', eqmod(idx, i + e)),
                ('map(e) normalised to [0,mod)', (mod == 0) | ((0 <= idx) & (idx < mod)))]
    O.append(('Axis.map/unmap round trip', axis_inv() + [T(e) >= 0, T(e) < T(j) - T(i)], roundtrip, 'C11'))
    def unmap_total():
        ax = ts.Axis(i, j, mod)
        try:
            ie = ax.unmap(p)
        except ValueError:
            # rejected: p must not be an index of this axis (mod-aware)
            k = V('k')
            return [('rejected index is not in the axis', NOT((0 <= k) & (k < j - i) & eqmod(p, i + k)))]
        return [('accepted index maps back', eqmod(ax.map(ie), p)), ('accepted element in range', (0 <= ie) & (ie < j - i))]
    O.append(('Axis.unmap accepts exactly the indices of the axis', axis_inv(), unmap_total, 'C11'))
    # ---- C10: interfaces
    for periodic in (False, True):
        def iface(periodic=periodic):
            ax = ts.DimAxis(i, j, mod, periodic)
            a = ax.intaxis(0, side=True); b = ax.intaxis(0, side=False)
            n = j - i
            ka, kb = a.map(t), b.map(t)
            claims = [('both sides have equal length', _len(a) == _len(b)),
                      ('number of interfaces', _len(a) == (n if periodic else n - 1)),
                      ('side flags', SBool(z3.BoolVal(bool(a.side) is True and bool(b.side) is False))),
                      ('the two sides are adjacent elements sharing the face (left element + 1 == right element)', eqmod(ka + 1, kb)),
                      ('left neighbour is an element of the axis', _member(ax, ka)), ('right neighbour is an element of the axis', _member(ax, kb)),
                      ('distinct interfaces are distinct faces', NOT(eqmod(b.map(t), b.map(t2))) | (t == t2))]
            return claims
        def iface_onto(periodic=periodic):
            # every interior face position p is hit: face p (between elements p-1 and p) is interface t = p - i - 1 (non-periodic) / p - i (periodic)
            ax = ts.DimAxis(i, j, mod, periodic)
            b = ax.intaxis(0, side=False)
            tt = p - i if periodic else p - i - 1
            return [('interface index in range', (0 <= tt) & (tt < _len(b))), ('interior face p is interface t', eqmod(b.map(tt), p))]
        L = (T(j) - T(i)) if periodic else (T(j) - T(i) - 1)
        O.append((f'DimAxis.intaxis periodic={periodic}: both sides of interface t', axis_inv(periodic) + ([T(mod) == 0] if False else []) + [T(t) >= 0, T(t) < L, T(t2) >= 0, T(t2) < L], iface, 'C10'))
        O.append((f'DimAxis.intaxis periodic={periodic}: every interior face is an interface', axis_inv(periodic) + ([T(p) >= T(i), T(p) < T(j)] if periodic else [T(p) > T(i), T(p) < T(j)]), iface_onto, 'C10'))
    # ---- C10: boundaries
    def bnd():
        ax = ts.DimAxis(i, j, mod, False)
        bs = list(ax.boundaries(0))
        if builtins.len(bs) != 2: return [('two boundaries', SBool(z3.BoolVal(False)))]
        l, r = bs
        return [('left boundary: one element', _len(l) == 1), ('right boundary: one element', _len(r) == 1),
                ('left boundary is the first element, low side', eqmod(l.map(0), i) & SBool(z3.BoolVal(not l.side))),
                ('right boundary is the last element, high side', eqmod(r.map(0), j - 1) & SBool(z3.BoolVal(bool(r.side)))),
                ('left boundary element belongs to the axis', _member(ax, l.map(0))), ('right boundary element belongs to the axis', _member(ax, r.map(0)))]
    O.append(('DimAxis.boundaries non-periodic: exactly the two end faces', axis_inv(), bnd, 'C10'))
    def bnd_per():
        ax = ts.DimAxis(i, j, mod, True)
        return [('periodic axis has no boundary', SBool(z3.BoolVal(builtins.len(list(ax.boundaries(0))) == 0)))]
    O.append(('DimAxis.boundaries periodic: empty', axis_inv(True), bnd_per, 'C10'))
    # ---- C10: refinement commutes
    def refine_dim():
        c = V('c')
        ax = ts.DimAxis(i, j, mod, V('per').t if False else False)
        r = ax.refined
        out = [('refined length doubles', _len(r) == 2 * _len(ax)),
               ('child c of element e is refined element 2e+c with absolute index 2*map(e)+c', eqmod(r.map(2 * e + c), 2 * ax.map(e) + c, 2 * mod)),
               ('refined axis keeps the representation invariant', SBool(z3.Or(lift(r.mod).t == 0, z3.And(lift(r.mod).t > 0, lift(r.i).t >= 0, lift(r.j).t <= lift(r.mod).t))))]
        return out
    O.append(('DimAxis.refined: children indices', axis_inv() + [T(e) >= 0, T(e) < T(j) - T(i), T(V('c')) >= 0, T(V('c')) <= 1], refine_dim, 'C10'))
    for side in (0, 1):
        def refine_int(side=side):
            ax = ts.IntAxis(i, i + 1, mod, 0, side)        # a boundary axis: one element, face on `side`
            r = ax.refined
            k = ax.map(0); kr = r.map(0)
            # the face of element k on `side` is at position k+side; on the refined grid the same face is at 2*(k+side); the refined element adjacent to it is 2k+side
            return [('refined boundary axis has one element', _len(r) == 1),
                    ('refined element touches the same face', eqmod(kr + side, 2 * (k + side), 2 * mod)),
                    ('side preserved', SBool(z3.BoolVal(int(r.side) == side)))]
        O.append((f'IntAxis.refined (boundary axis, side={side}): same face on the finer level', [z3.Or(T(mod) == 0, z3.And(T(mod) >= 1, T(i) >= 0, T(i) < T(mod)))], refine_int, 'C10'))
    for side in (0, 1):
        def opposite(side=side):
            ax = ts.IntAxis(i, j, mod, 0, side)
            o = ax.opposite(0)
            # the opposite side of the same faces: element on the other side of face (k+side) is k+2*side-1, and its facing side is 1-side
            return [('opposite has same length', _len(o) == _len(ax)), ('opposite element shares the face', eqmod(lift(o.map(t)) + (1 - side), lift(ax.map(t)) + side)),
                    ('opposite side flag', SBool(z3.BoolVal(int(o.side) == 1 - side))), ('other ibound untouched', SBool(z3.BoolVal(ax.opposite(1) is ax)))]
        O.append((f'IntAxis.opposite side={side}', axis_inv() + [T(t) >= 0, T(t) < T(j) - T(i)], opposite, 'C10'))
    # ---- slicing keeps absolute indices (sub-topologies do not move elements)
    def getitem():
        a, b = V('a'), V('b')
        ax = ts.DimAxis(i, j, mod, False)
        s = ax.getitem(slice(a, b) if CONCRETE else SymSlice(a, b))
        return [('slice length', _len(s) == b - a), ('sliced element e is parent element a+e', eqmod(s.map(e), ax.map(a + e))), ('slice is not periodic', SBool(z3.BoolVal(s.isperiodic is False))),
                ('slice keeps the invariant', SBool(z3.Or(lift(s.mod).t == 0, z3.And(lift(s.mod).t > 0, lift(s.i).t >= 0, lift(s.j).t <= lift(s.mod).t))))]
    O.append(('DimAxis.getitem: slices keep absolute indices', axis_inv() + [T(V('a')) >= 0, T(V('a')) < T(V('b')), T(V('b')) <= T(j) - T(i), T(e) >= 0, T(e) < T(V('b')) - T(V('a'))], getitem, 'C10'))
    return O

def _member(ax, k):
    """absolute index k denotes an element of axis ax: exists element q in [0,len) with i+q == k (mod)"""
    q = k - ax.i
    if mod != 0: q = q % mod
    return (0 <= q) & (q < ax.j - ax.i)

class SymSlice:
    '''stand-in for slice(a, b) with symbolic bounds; indices(n) = (a, b, 1) under the harness assumption 0 <= a < b <= n'''
    def __init__(self, a, b): self.a, self.b = a, b
    def indices(self, n): return self.a, self.b, 1
    def __eq__(self, other): return False
    __hash__ = None

def prove(name, assumptions, fn, max_paths=64, timeout_ms=20000, mutate=None):
    '''returns dict(name, paths, exhaustive, proved, failed=[(label, model)], unknown, aborted)'''
    out = dict(name=name, paths=0, exhaustive=True, proved=0, failed=[], unknown=0, aborted=[])
    ts.len = _len
    ts.isinstance = lambda o, t: True if (t is slice and builtins.isinstance(o, SymSlice)) else builtins.isinstance(o, t)
    try:
        paths, complete = explore(fn, assumptions=assumptions, max_paths=max_paths, timeout_ms=timeout_ms)
    finally:
        del ts.len, ts.isinstance
    out['paths'] = len(paths); out['exhaustive'] = complete
    for P in paths:
        if P.tag == 'abort':
            if 'infeasible' not in str(P.value): out['aborted'].append(str(P.value))
            continue
        if P.tag != 'ok':
            s = z3.Solver(); s.set('timeout', timeout_ms); s.add(*P.pc)
            if str(timed_check(s)) == 'sat':
                m = s.model()
                out['failed'].append((f'raised {type(P.value).__name__}: {P.value}'[:120], {str(d): m[d].as_long() for d in m.decls() if z3.is_int_value(m[d])}))
            continue
        for label, claim in P.value:
            if mutate: claim = mutate(label, claim)
            r, m = S.holds(claim, pc=P.pc, defined=P.defined, side=P.side, timeout_ms=timeout_ms)
            if r == 'unsat': out['proved'] += 1
            elif r == 'unknown': out['unknown'] += 1
            else: out['failed'].append((label, {str(d): m[d].as_long() for d in m.decls() if z3.is_int_value(m[d])}))
    return out

# ---------------------------------------------------------------- concrete replay of a counterexample

def concrete_check(name, model):
    """replay: the real Axis classes on real Python integers taken from the model; claims become ground terms.
    returns list of failing labels, or None if the model violates the assumptions"""
    setenv(model)
    try:
        for nm, assume, fn, prop in obligations():
            if nm != name: continue
            if not all(z3.is_true(z3.simplify(a)) for a in assume): return None
            ts.len = _len
            try:
                try:
                    claims = fn()
                except Exception as ex:
                    return [f'raised {type(ex).__name__}: {ex}']
            finally:
                del ts.len
            bad = []
            for label, cl in claims:
                v = cl.t if isinstance(cl, Sym) else z3.BoolVal(bool(cl))
                if not z3.is_true(z3.simplify(v)): bad.append(label)
            return bad
    finally:
        setenv()
