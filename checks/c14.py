'''C14 - solvers return a certified solution or raise (the certifying glue; numerical back ends are stubs).

1. Matrix._solver with a stub solver method returning an ARBITRARY vector (symbolic reals, or flagged non-finite)
2. Matrix.solve constraint handling (lhs0, bool / NaN-float constrain, rconstrain) with the inner solver a stub
3. linear solve is independent of the initial guess (backend = exact symbolic solve)
4. System.solve driver with a stub method yielding arbitrary extended-real residual norms (finite / NaN / +-inf)
5. System.deconstruct / construct: constrained entries keep exactly the prescribed value (float constraint) or the guess (boolean constraint), all others are the free vector
6. System.solve_constraints: an entry is left NaN exactly if every entry of its jacobian COLUMN is within droptol (matrix back end = stub with csr export / row support / recording solve)
'''
import sys, itertools, builtins, warnings, numpy, z3, contextlib, math
warnings.simplefilter('ignore')
from nutils import matrix, numeric, function, solver
from nutils.matrix import _numpy as mnp, _base as mbase
import nutils.matrix as M
import treelog
from symx import harness, solve as S, tv
from symx.sym import *
from symx.sarray import SArray, npproxy
from checks.c15 import patched

PID = 'C14'
STUBS = ['initial-guess case: numpy.linalg.norm = fresh n>=0 with (n==0 <=> x==0)', 'matrix modules numpy -> symx.npproxy (see C15)', 'linear solver method = stub returning an arbitrary symbolic vector or a vector containing NaN',
         'numpy.linalg.norm = fresh n>=0 with n^2 = sum x^2', 'initial-guess case: linear back end = exact solver characterised by its contract (fresh X with A X = X A = I)',
         'System.solve: method = stub generator yielding arbitrary extended-real residual norms; cache.function/log wrappers left intact']

def sq(x): return x * x

# ---------------------------------------------------------------- 1. _solver contract

def solver_case(item):
    n, nonfinite, zero_atol = item
    key = f'_solver n={n} stub_returns_{"nan" if nonfinite else "finite"} atol{"=0" if zero_atol else ">=0"}'
    out = dict(key=key, paths=0, unsat=0, unknown=0, cex=[], returned=0, raised={})
    def run():
        A = SArray.symbolic('A', (n, n)); b = SArray.symbolic('b', (n,)); y = SArray.symbolic('y', (n,))
        atol = SReal(z3.Real('atol')); rtol = SReal(z3.Real('rtol'))
        def stub(mat, rhs, atol, **kw):
            if nonfinite:
                r = SArray.symbolic('y', (n,)); r.a[0] = float('nan'); return r
            return y
        with patched():
            m = mnp.NumpyMatrix(A)
            try:
                lhs = m._solver(b, stub, atol=atol, rtol=rtol)
            except matrix.ToleranceNotReached as e:
                return 'ToleranceNotReached', None, (A, b, y, atol, rtol)
            except matrix.MatrixError as e:
                return 'MatrixError', None, (A, b, y, atol, rtol)
        return 'return', lhs, (A, b, y, atol, rtol)
    assume = [z3.Real('atol') >= 0, z3.Real('rtol') >= 0] + ([z3.Real('atol') == 0, z3.Real('rtol') == 0] if zero_atol else [])
    paths, complete = explore(run, assumptions=assume, max_paths=200, timeout_ms=15000)
    out['paths'] = len(paths); out['exhaustive'] = complete
    for P in paths:
        if P.tag == 'abort': continue
        if P.tag != 'ok':
            out['cex'].append(dict(kind='unexpected-exception', detail=f'{P.tag} {type(P.value).__name__}: {P.value}'[:200])); continue
        kind, lhs, (A, b, y, atol, rtol) = P.value
        if kind != 'return':
            out['raised'][kind] = out['raised'].get(kind, 0) + 1; continue
        out['returned'] += 1
        if nonfinite:
            if any(is_concrete(x) and x != x for x in SArray.wrap(lhs).a.flat):
                out['cex'].append(dict(kind='nonfinite-returned', detail='a left-hand side containing NaN was returned'))
            else: out['unsat'] += 1   # returned the zero-shortcut, not the stub's vector
            continue
        # obligation: effective tolerance > 0 => |b - A lhs|^2 <= tol_eff^2, tol_eff = max(atol, rtol*|b|)
        res = b - numpy.einsum('ij,j->i', A, lhs)
        res2 = builtins.sum((sq(x) for x in res.a), lift(0.))
        b2 = builtins.sum((sq(x) for x in b.a), lift(0.))
        nb = SReal(z3.Real('nb'))
        extra = [nb.t >= 0, nb.t * nb.t == b2.t]
        tol = SReal(z3.If(atol.t >= rtol.t * nb.t, atol.t, rtol.t * nb.t))
        claim = z3.Implies(tol.t > 0, res2.t <= tol.t * tol.t)
        r, m = S.holds(claim, pc=P.pc, defined=P.defined, side=P.side, extra=extra, timeout_ms=30000)
        if r == 'unsat': out['unsat'] += 1
        elif r == 'unknown': out['unknown'] += 1
        else: out['cex'].append(dict(kind='uncertified-return', detail='returned although residual exceeds the effective tolerance', model={str(d): str(m[d]) for d in m.decls()}))
    return out

# ---------------------------------------------------------------- 2. constraint handling

def constrain_case(item):
    n, cmask, mode, use_lhs0, rmask = item[:5]
    prior = item[5] if len(item) > 5 else None       # (constrain mask, rconstrain mask) of an EARLIER solve on the same matrix object (the submatrix cache is per object)
    key = f'solve n={n} constrain={mode}{list(cmask)} lhs0={use_lhs0} rconstrain={rmask}' + (f' after a solve with constrain={list(prior[0])} rconstrain={list(prior[1])} on the same matrix' if prior else '')
    out = dict(key=key, paths=0, unsat=0, unknown=0, cex=[], returned=0, raised={})
    nfree = n - builtins.sum(cmask)
    def run():
        A = SArray.symbolic('A', (n, n)); b = SArray.symbolic('b', (n,)); y = SArray.symbolic('y', (nfree,))
        lhs0 = SArray.symbolic('l', (n,)) if use_lhs0 else None
        atol = SReal(z3.Real('atol'))
        cvals = SArray.symbolic('c', (n,))
        if mode == 'bool':
            constrain = numpy.array(cmask, dtype=bool)
        else:
            constrain = SArray.symbolic('c', (n,))
            for i, c in enumerate(cmask):
                if not c: constrain.a[i] = float('nan')
        rconstrain = numpy.array(rmask, dtype=bool) if rmask is not None else None
        def stub(mat, rhs, atol, **kw): return y
        with patched():
            m = mnp.NumpyMatrix(A)
            if prior:
                y0 = SArray.symbolic('y0', (n - builtins.sum(prior[0]),))
                try: m.solve(b, constrain=numpy.array(prior[0], dtype=bool), rconstrain=numpy.array(prior[1], dtype=bool), solver=lambda mat, rhs, atol, **kw: y0, atol=atol)
                except matrix.MatrixError: pass
            try:
                lhs = m.solve(b, lhs0=lhs0, constrain=constrain, rconstrain=rconstrain, solver=stub, atol=atol)
            except matrix.ToleranceNotReached:
                return 'ToleranceNotReached', None, None
            except matrix.MatrixError:
                return 'MatrixError', None, None
        return 'return', lhs, (A, b, lhs0, cvals, atol)
    paths, complete = explore(run, assumptions=[z3.Real('atol') >= 0], max_paths=200, timeout_ms=15000)
    out['paths'] = len(paths); out['exhaustive'] = complete
    for P in paths:
        if P.tag == 'abort': continue
        if P.tag != 'ok':
            out['cex'].append(dict(kind='unexpected-exception', detail=f'{P.tag} {type(P.value).__name__}: {P.value}'[:200])); continue
        kind, lhs, info = P.value
        if kind != 'return':
            out['raised'][kind] = out['raised'].get(kind, 0) + 1; continue
        out['returned'] += 1
        A, b, lhs0, cvals, atol = info
        claims = []
        for i, c in enumerate(cmask):
            if c:
                want = cvals.a[i] if mode == 'float' else (lhs0.a[i] if lhs0 is not None else lift(0.))
                claims.append(('constrained entry %d exact' % i, lift(lhs.a[i]) == want))
        I = [not r for r in rmask] if rmask is not None else [not c for c in cmask]
        res = b - numpy.einsum('ij,j->i', A, lhs)
        res2 = builtins.sum((sq(res.a[i]) for i in range(n) if I[i]), lift(0.))
        claims.append(('free residual within atol', SBool(z3.Implies(atol.t > 0, lift(res2).t <= atol.t * atol.t))))
        for label, cl in claims:
            r, m = S.holds(cl, pc=P.pc, defined=P.defined, side=P.side, timeout_ms=30000)
            if r == 'unsat': out['unsat'] += 1
            elif r == 'unknown': out['unknown'] += 1
            else: out['cex'].append(dict(kind='constraint-violated', detail=label, model={str(d): str(m[d]) for d in m.decls()}))
    return out

def replay_constrain(item, model=None):
    '''real numpy backend, direct solver: constrained entries must be exact and the free residual small'''
    n, cmask, mode, use_lhs0, rmask = item[:5]
    prior = item[5] if len(item) > 5 else None
    rng = numpy.random.default_rng(1)
    A = rng.integers(1, 5, (n, n)).astype(float) + 4 * numpy.eye(n); b = rng.integers(-3, 4, n).astype(float)
    lhs0 = rng.integers(-3, 4, n).astype(float) if use_lhs0 else None
    cvals = rng.integers(-3, 4, n).astype(float)
    constrain = numpy.array(cmask, dtype=bool) if mode == 'bool' else numpy.where(cmask, cvals, numpy.nan)
    rconstrain = numpy.array(rmask, dtype=bool) if rmask is not None else None
    try:
        with matrix.backend('numpy'):
            m = matrix.assemble_csr(A.ravel(), numpy.arange(0, n * n + 1, n), numpy.tile(numpy.arange(n), n), n)
            if prior:
                try: m.solve(b, constrain=numpy.array(prior[0], dtype=bool), rconstrain=numpy.array(prior[1], dtype=bool), solver='direct', atol=1e-10)
                except matrix.MatrixError: pass
            lhs = m.solve(b, lhs0=lhs0, constrain=constrain, rconstrain=rconstrain, solver='direct', atol=1e-10)
    except matrix.MatrixError as e:
        return False, f'raised {type(e).__name__}'
    for i, c in enumerate(cmask):
        if c:
            want = cvals[i] if mode == 'float' else (lhs0[i] if lhs0 is not None else 0.)
            if lhs[i] != want: return True, f'constrained entry {i} = {lhs[i]} instead of {want}'
    I = ~rconstrain if rconstrain is not None else ~numpy.array(cmask, dtype=bool)
    r = numpy.linalg.norm((b - A @ lhs)[I])
    if not r <= 1e-8: return True, f'free residual {r}'
    return False, 'certified'

# ---------------------------------------------------------------- 3. independence of the initial guess

def guess_case(n):
    out = dict(key=f'linear solve independent of lhs0, n={n}', paths=0, unsat=0, unknown=0, cex=[])
    from symx import sarray
    def run():
        A = SArray.symbolic('A', (n, n)); b = SArray.symbolic('b', (n,)); l0 = SArray.symbolic('l', (n,))
        X = SArray.symbolic('X', (n, n))     # the exact back end, characterised by its contract A X = X A = I
        AX = numpy.einsum('ij,jk->ik', A, X); XA = numpy.einsum('ij,jk->ik', X, A)
        for i in range(n):
            for j in range(n):
                ctx().side.append(lift(AX.a[i, j]).t == (1 if i == j else 0)); ctx().side.append(lift(XA.a[i, j]).t == (1 if i == j else 0))
        def exact(mat, rhs, atol, **kw): return numpy.einsum('ij,j->i', X, rhs)
        sarray.NORM_ABSTRACT[0] = True
        try:
            with patched():
                m = mnp.NumpyMatrix(A)
                x0 = m.solve(b, solver=exact)
                x1 = m.solve(b, lhs0=l0, solver=exact)
        finally:
            sarray.NORM_ABSTRACT[0] = False
        return x0, x1
    paths, complete = explore(run, max_paths=64, timeout_ms=20000)
    out['paths'] = len(paths)
    for P in paths:
        if P.tag == 'abort': continue
        if P.tag != 'ok':
            out['cex'].append(dict(kind='exception', detail=f'{P.tag} {type(P.value).__name__}: {P.value}'[:200])); continue
        x0, x1 = P.value
        v = S.equiv(x0, x1, pc=P.pc, defined=P.defined, side=P.side, timeout_ms=30000)
        out['unsat'] += v.exact_unsat + v.trivial; out['unknown'] += v.unknown
        for idx, m in v.models: out['cex'].append(dict(kind='depends-on-guess', detail=f'element {idx}', model={str(d): str(m[d]) for d in m.decls()}))
    return out

# ---------------------------------------------------------------- 4. System.solve driver

class XReal:
    '''extended real with IEEE comparison semantics: tag 0 finite, 1 nan, 2 +inf, 3 -inf'''
    def __init__(s, tag, val): s.tag, s.val = tag, val
    @staticmethod
    def fresh(name): return XReal(z3.Int(name + '_tag'), z3.Real(name))
    @staticmethod
    def of(v):
        if isinstance(v, XReal): return v
        if isinstance(v, Sym): return XReal(z3.IntVal(0), v.cast('f').t)
        v = float(v)
        if v != v: return XReal(z3.IntVal(1), z3.RealVal(0))
        if v == float('inf'): return XReal(z3.IntVal(2), z3.RealVal(0))
        if v == -float('inf'): return XReal(z3.IntVal(3), z3.RealVal(0))
        return XReal(z3.IntVal(0), lift(v).t)
    def _cmp(s, o, op):
        o = XReal.of(o)
        fin = z3.And(s.tag == 0, o.tag == 0)
        gt = z3.Or(z3.And(fin, s.val > o.val), z3.And(s.tag == 2, o.tag != 2, o.tag != 1), z3.And(o.tag == 3, s.tag != 3, s.tag != 1))
        lt = z3.Or(z3.And(fin, s.val < o.val), z3.And(o.tag == 2, s.tag != 2, s.tag != 1), z3.And(s.tag == 3, o.tag != 3, o.tag != 1))
        eq = z3.Or(z3.And(fin, s.val == o.val), z3.And(s.tag == o.tag, s.tag >= 2))
        return SBool({'gt': gt, 'lt': lt, 'ge': z3.Or(gt, eq), 'le': z3.Or(lt, eq), 'eq': eq}[op])
    __gt__ = lambda s, o: s._cmp(o, 'gt'); __lt__ = lambda s, o: s._cmp(o, 'lt')
    __ge__ = lambda s, o: s._cmp(o, 'ge'); __le__ = lambda s, o: s._cmp(o, 'le')
    def __truediv__(s, o): return XReal.fresh(f'q{id(s) % 1000}{id(o) % 1000}')
    __rtruediv__ = __truediv__
    def __mul__(s, o): return XReal.fresh('m')
    __rmul__ = __mul__
    def log(s): return XReal.fresh(f'log{id(s) % 10000}')
    def __format__(s, spec): return '<sym>'
    def isnan(s): return SBool(s.tag == 1)

class _LogNP:
    '''numpy facade for nutils.solver during driver runs: log() and isnan() of extended reals'''
    def __getattr__(self, n): return getattr(numpy, n)
    @staticmethod
    def log(x): return x.log() if isinstance(x, XReal) else numpy.log(x)
    @staticmethod
    def isnan(x): return x.isnan() if isinstance(x, XReal) else numpy.isnan(x)
    @staticmethod
    def isfinite(x): return SBool(x.tag == 0) if isinstance(x, XReal) else numpy.isfinite(x)

_u = function.Argument('u', (1,)); _v = function.Argument('v', (1,))
_SYS = None
def system():
    global _SYS
    if _SYS is None: _SYS = solver.System(((_u * _u - 2) * _v).sum(), trial='u', test='v')
    return _SYS

def driver_case(item):
    K, iterative, has_maxiter = item
    key = f'System.solve driver method={"iterative" if iterative else "direct"} unroll={K} maxiter={"symbolic" if has_maxiter else "None"}'
    out = dict(key=key, paths=0, unsat=0, unknown=0, cex=[], returned=0, raised={})
    sysm = system()
    def run():
        norms = [XReal.fresh(f'n{k}') for k in range(K + 1)]
        state = {'k': -1}
        def method(system, *, arguments, constrain):
            if not iterative:
                state['k'] = 0
                return {'u': numpy.array([0.])}, norms[0]
            def gen():
                for k in range(K + 1):
                    state['k'] = k
                    yield {'u': numpy.array([float(k)])}, norms[k]
                raise PathAbort('beyond unrolling bound')
            return gen()
        tol = XReal(z3.IntVal(0), z3.Real('tol'))
        miniter = SInt(z3.Int('miniter')); maxiter = SInt(z3.Int('maxiter')) if has_maxiter else None
        saved = solver.numpy
        solver.numpy = _LogNP()
        try:
            with treelog.set(treelog.NullLog()) if hasattr(treelog, 'NullLog') else contextlib.nullcontext():
                sysm.solve(tol=tol, miniter=miniter, maxiter=maxiter, method=method)
            return 'return', state['k'], norms
        except solver.SolverError as e:
            return 'SolverError', state['k'], norms
        except ValueError as e:
            return 'ValueError', state['k'], norms
        finally:
            solver.numpy = saved
    assume = [z3.Int('miniter') >= 0, z3.Int('miniter') <= K] + ([z3.Int('maxiter') >= 0, z3.Int('maxiter') <= K + 1] if has_maxiter else []) + \
             [z3.And(z3.Int(f'n{k}_tag') >= 0, z3.Int(f'n{k}_tag') <= 2, z3.Implies(z3.Int(f'n{k}_tag') == 0, z3.Real(f'n{k}') >= 0)) for k in range(K + 1)]
    paths, complete = explore(run, assumptions=assume, max_paths=600, timeout_ms=10000)
    out['paths'] = len(paths)
    tolv = z3.Real('tol')
    for P in paths:
        if P.tag == 'abort': continue
        if P.tag != 'ok':
            out['cex'].append(dict(kind='unexpected-exception', detail=f'{P.tag} {type(P.value).__name__}: {P.value}'[:200])); continue
        kind, k, norms = P.value
        if kind != 'return':
            out['raised'][kind] = out['raised'].get(kind, 0) + 1; continue
        out['returned'] += 1
        last = norms[k]
        if iterative:
            claim = z3.And(last.tag == 0, last.val <= tolv, k >= z3.Int('miniter'))
        else:
            claim = z3.Implies(tolv > 0, z3.And(last.tag == 0, last.val <= tolv))
        r, m = S.holds(claim, pc=P.pc, timeout_ms=20000)
        if r == 'unsat': out['unsat'] += 1
        elif r == 'unknown': out['unknown'] += 1
        else:
            tags = [m.eval(n.tag, True).as_long() for n in norms]
            out['cex'].append(dict(kind='uncertified-return', detail=f'returned after {k} iterations with norm tags {tags} (0 finite,1 nan,2 inf)', k=k, tags=tags,
                                   model={str(d): str(m[d]) for d in m.decls()}))
    return out

def replay_driver(cex):
    '''public API, real Newton: start where the residual is NaN; the solve must raise'''
    u = function.Argument('u', (1,)); v = function.Argument('v', (1,))
    sysm = solver.System(((numpy.sqrt(u) - 2) * v).sum(), trial='u', test='v')
    try:
        with treelog.set(treelog.NullLog()) if hasattr(treelog, 'NullLog') else contextlib.nullcontext():
            r = sysm.solve(arguments=dict(u=numpy.array([-1.])), tol=1e-8, maxiter=20)
    except (solver.SolverError, matrix.MatrixError) as e:
        return False, f'raised {type(e).__name__}: {e}'
    val = float(r['u'][0])
    res = math.sqrt(val) - 2 if val >= 0 else float('nan')
    if not abs(res) <= 1e-8:
        return True, f'Newton on sqrt(u)-2 from u=-1 returned u={val} with residual {res} (not within tol) without raising'
    return False, 'converged'

def replay_nonfinite(item):
    n = item[0]
    A = numpy.eye(n) * 2; b = numpy.ones(n)
    def stub(mat, rhs, atol, **kw): return numpy.full(n, numpy.nan)
    try:
        with matrix.backend('numpy'), treelog.set(treelog.NullLog()):
            m = matrix.assemble_csr(A.ravel(), numpy.arange(0, n * n + 1, n), numpy.tile(numpy.arange(n), n), n)
            lhs = m.solve(b, solver=stub, atol=0. if item[2] else 1e-3)
    except matrix.MatrixError as e:
        return False, f'raised {type(e).__name__}'
    return (True, f'returned {lhs}') if not numpy.isfinite(lhs).all() else (False, 'finite')

# ---------------------------------------------------------------- 5. System.deconstruct / construct (NaN marks free entries)

_SYS2 = None
def system2():
    global _SYS2
    if _SYS2 is None:
        u = function.Argument('u', (3,)); w = function.Argument('w', (2,)); v = function.Argument('v', (3,)); z = function.Argument('z', (2,))
        _SYS2 = solver.System(((u * 2. + 1.) * v).sum() + ((w * 3. - 1.) * z).sum(), trial='u,w', test='v,z')
    return _SYS2

def _mixed(name, mask):
    a = numpy.empty(len(mask), object)
    for i, m in enumerate(mask): a[i] = SReal(z3.Real(f'{name}{i}')) if m else float('nan')
    return SArray(a, 'f')

def roundtrip_case(item):
    '''item = (guess given for u, constraint mode none|bool|float, mask over the 3 entries of u, guess given for w)'''
    a_given, mode, mask, w_given = item
    key = f'System.deconstruct/construct u: guess={"yes" if a_given else "no"} constrain={mode}{list(mask) if mode != "none" else ""} w: guess={"yes" if w_given else "no"}'
    out = dict(key=key, paths=0, unsat=0, unknown=0, cex=[], returned=0, raised={})
    sysm = system2()
    def run():
        saved = solver.numpy; solver.numpy = npproxy
        try:
            args = {}
            if a_given: args['u'] = SArray.symbolic('au', (3,))
            if w_given: args['w'] = SArray.symbolic('aw', (2,))
            cons = {}
            if mode == 'bool': cons['u'] = numpy.array(mask, dtype=bool)
            elif mode == 'float': cons['u'] = _mixed('cu', mask)
            args2, x0 = sysm.deconstruct(args, cons)
            X = SArray.symbolic('X', (len(x0),))
            fin = sysm.construct(args2, X)
            return args, cons, x0, X, fin
        finally: solver.numpy = saved
    paths, complete = explore(run, max_paths=8, timeout_ms=10000)
    out['paths'] = len(paths)
    for P in paths:
        if P.tag != 'ok':
            out['cex'].append(dict(kind='unexpected-exception', detail=f'{P.tag} {type(P.value).__name__}: {P.value}'[:200])); continue
        args, cons, x0, X, fin = P.value
        out['returned'] += 1
        # the definition: constrained entries keep the prescribed value (float constraint) or the guess / zero (boolean constraint); all others are the free vector, in order
        want_u, want_x0, k = [], [], 0
        for i in range(3):
            constrained = (mode == 'bool' and mask[i]) or (mode == 'float' and mask[i])
            if constrained:
                want_u.append(cons['u'].a[i] if mode == 'float' else (args['u'].a[i] if a_given else 0.))
            else:
                want_u.append(X.a[k]); want_x0.append(args['u'].a[i] if a_given else 0.); k += 1
        want_w = [X.a[k + j] for j in range(2)]; want_x0 += [args['w'].a[j] if w_given else 0. for j in range(2)]
        def arr(lst):
            a = numpy.empty(len(lst), object)
            for i, x in enumerate(lst): a[i] = x
            return SArray(a, 'f')
        for label, ref, got in (('u', arr(want_u), fin['u']), ('w', arr(want_w), fin['w']), ('initial free vector', arr(want_x0), x0)):
            got = SArray.wrap(got)
            if tuple(got.shape) != tuple(ref.shape) or any(isinstance(x, float) and x != x for x in got.a.flat):
                out['cex'].append(dict(kind='roundtrip', detail=f'{label}: result {got} (expected shape {ref.shape}, no NaN left)')); continue
            v = S.equiv(ref, got, pc=P.pc, timeout_ms=10000)
            out['unsat'] += v.exact_unsat + v.trivial; out['unknown'] += v.unknown
            if v.sat: out['cex'].append(dict(kind='roundtrip', detail=f'{label}: entry differs from the prescribed/free value', model={str(d): str(v.models[0][1][d]) for d in v.models[0][1].decls()}))
    return out

def replay_roundtrip(item):
    '''real numpy: distinct concrete guess / constraint / free values through deconstruct + construct'''
    a_given, mode, mask, w_given = item
    sysm = system2()
    args = {}
    if a_given: args['u'] = numpy.array([10., 20., 30.])
    if w_given: args['w'] = numpy.array([40., 50.])
    cons = {}
    if mode == 'bool': cons['u'] = numpy.array(mask, dtype=bool)
    elif mode == 'float': cons['u'] = numpy.array([(7. + i) if m else numpy.nan for i, m in enumerate(mask)])
    try:
        args2, x0 = sysm.deconstruct(args, cons)
        X = 100. + numpy.arange(len(x0)); fin = sysm.construct(args2, X.copy())
    except Exception as ex:
        return True, f'raised {type(ex).__name__}: {ex}'
    want, k = [], 0
    for i in range(3):
        if mode != 'none' and mask[i]: want.append(cons['u'][i] if mode == 'float' else (args['u'][i] if a_given else 0.))
        else: want.append(X[k]); k += 1
    if not numpy.array_equal(fin['u'], want) or not numpy.array_equal(fin['w'], X[k:]):
        return True, f'constructed u={fin["u"].tolist()} w={fin["w"].tolist()}, definition gives u={want} w={X[k:].tolist()} (guess {tv.tolist(args)}, constrain {tv.tolist(cons)})'
    return False, 'agree'

# ---------------------------------------------------------------- 6. solve_constraints: NaN exactly where the column is below droptol

PATTERNS_CSR = [((0, 2, 3), (0, 1, 1)), ((0, 1, 3), (1, 0, 1)), ((0, 2, 4), (0, 1, 0, 1)), ((0, 1, 2, 4), (2, 0, 1, 2)), ((0, 0, 2), (0, 1)), ((0, 3, 3, 4), (0, 1, 2, 0))]

class _StubJac:
    '''matrix back end stub: csr export, row support and a linear solve that records the constraint mask it is given'''
    def __init__(s, data, colidx, rowptr, n): s.data, s.colidx, s.rowptr, s.n = data, colidx, rowptr, n; s.shape = (n, n); s.seen = None
    def export(s, form): assert form == 'csr'; return s.data, SArray.wrap(numpy.array(s.colidx)), numpy.array(s.rowptr)
    def rowsupp(s, tol=0):
        out = npproxy.zeros(s.n, dtype=bool)
        for r in range(s.n):
            for k in range(s.rowptr[r], s.rowptr[r + 1]): out[r] = out[r] | (abs(s.data[k]) > tol)
        return out
    def solve(s, rhs, constrain=None, **kw): s.seen = constrain; return npproxy.zeros(s.n, dtype=float)
    def __matmul__(s, x): return npproxy.zeros(s.n, dtype=float)

_SYS3 = {}
def system3(n):
    if n not in _SYS3:
        u = function.Argument('u', (n,)); v = function.Argument('v', (n,))
        _SYS3[n] = solver.System((u * v).sum(), trial='u', test='v')
    return _SYS3[n]

def droptol_case(ip):
    rowptr, colidx = PATTERNS_CSR[ip]; n = len(rowptr) - 1
    key = f'System.solve_constraints droptol: {n}x{n} jacobian with csr pattern rowptr={list(rowptr)} colidx={list(colidx)}'
    out = dict(key=key, paths=0, unsat=0, unknown=0, cex=[], returned=0, raised={})
    sysm = system3(n)
    def run():
        saved = solver.numpy, sysm.__dict__.get('assemble'); solver.numpy = npproxy
        try:
            data = SArray.symbolic('d', (len(colidx),))
            J = _StubJac(data, colidx, rowptr, n)
            sysm.assemble = lambda arguments, x: (J, SArray.symbolic('r', (n,)), 0.)
            res = sysm.solve_constraints(droptol=SReal(z3.Real('droptol')))
            return res['u'], data
        finally:
            solver.numpy = saved[0]
            if saved[1] is None: sysm.__dict__.pop('assemble', None)
    paths, complete = explore(run, assumptions=[z3.Real('droptol') >= 0], max_paths=64, timeout_ms=10000)
    out['paths'] = len(paths)
    absz = lambda t: z3.If(t >= 0, t, -t)
    for P in paths:
        if P.tag != 'ok':
            out['cex'].append(dict(kind='unexpected-exception', detail=f'{P.tag} {type(P.value).__name__}: {P.value}'[:200])); continue
        res, data = P.value; res = SArray.wrap(res); out['returned'] += 1
        for j in range(n):
            isnan = isinstance(res.a[j], float) and res.a[j] != res.a[j]
            below = z3.And(*[absz(data.a[k].t) <= z3.Real('droptol') for k in range(len(colidx)) if colidx[k] == j])
            r, m = S.holds(below if isnan else z3.Not(below), pc=P.pc, timeout_ms=10000)
            if r == 'unsat': out['unsat'] += 1
            elif r == 'unknown': out['unknown'] += 1
            else: out['cex'].append(dict(kind='droptol', detail=f'dof {j} is {"left undetermined (NaN)" if isnan else "solved for"} although its column is {"above" if isnan else "below"} the drop tolerance',
                                         data=[S.model_value(m, d.t) for d in data.a], droptol=S.model_value(m, z3.Real('droptol')), pattern=ip))
    return out

def replay_droptol(c):
    '''real System with the jacobian A of the counterexample: solve_constraints must leave NaN exactly at the dofs whose column of A is below droptol'''
    rowptr, colidx = PATTERNS_CSR[c['pattern']]; n = len(rowptr) - 1
    A = numpy.zeros((n, n))
    for r in range(n):
        for k in range(rowptr[r], rowptr[r + 1]): A[r, colidx[k]] = c['data'][k]
    u = function.Argument('u', (n,)); v = function.Argument('v', (n,))
    sysm = solver.System(numpy.einsum('i,ij,j->', v, A, u) - v.sum(), trial='u', test='v')
    want = ~(abs(A) > c['droptol']).any(0)
    try:
        with treelog.set(treelog.NullLog()), matrix.backend('numpy'):
            got = numpy.isnan(sysm.solve_constraints(droptol=c['droptol'])['u'])
    except Exception as ex:
        return bool(want.any() and not want.all()) and not (abs(A) > c['droptol']).any(1).all() == False, f'raised {type(ex).__name__}: {ex}'
    if not numpy.array_equal(got, want): return True, f'jacobian {A.tolist()} droptol {c["droptol"]}: NaN pattern {got.tolist()}, columns below tolerance {want.tolist()}'
    return False, 'agree'

# ---------------------------------------------------------------- 7. Topology.project keeps earlier constraints (auxiliary, concrete)

def project_cases():
    '''constraint aggregation: project(fun, ..., constrain=prev) must return prev's prescribed entries unchanged (exactly), for every projection type and for zero and
    non-zero functions (the zero right-hand side takes a shortcut).  Real meshes, real numpy: finite facts, labelled auxiliary.'''
    from nutils import mesh
    bad = []; n = 0
    with treelog.set(treelog.NullLog()):
        for shape in ((2, 2), (3, 1)):
            topo, geom = mesh.rectilinear([numpy.arange(k + 1.) for k in shape])
            for btype, degree in (('std', 1), ('std', 2), ('spline', 2)):
                basis = topo.basis(btype, degree=degree)
                prev = topo.boundary['left'].project(1.5 + geom[1], onto=basis, geometry=geom, ischeme='gauss4')
                for side in ('bottom', 'top', 'right'):
                    for fun, fname in ((0., 'zero'), (2., 'constant'), (geom[0] - .5, 'linear')):
                        for ptype in ('lsqr', 'convolute', 'nodal'):
                            n += 1
                            try:
                                out = topo.boundary[side].project(fun, onto=basis, geometry=geom, ischeme='gauss4', constrain=prev, ptype=ptype)
                            except Exception as ex:
                                bad.append(f'project({fname}) on {side} of {shape} {btype}{degree} ptype={ptype}: raised {type(ex).__name__}: {ex}'[:200]); continue
                            keep = ~numpy.isnan(prev)
                            if not numpy.array_equal(numpy.asarray(out)[keep], numpy.asarray(prev)[keep]):
                                bad.append(f'project({fname}) on {side} of a {shape} mesh, {btype}{degree}, ptype={ptype}: earlier constraints changed from {numpy.asarray(prev)[keep].tolist()} to {numpy.asarray(out)[keep].tolist()}')
                            if numpy.isnan(out).sum() > numpy.isnan(prev).sum(): bad.append(f'project({fname}) on {side} {shape} {btype}{degree} {ptype}: constraints were dropped')
    return n, bad

def main(argv=None):
    args = harness.parse_args(PID, argv)
    if args.replay:
        import json
        d = json.load(open(args.replay))['replay']
        if d['kind'] == 'driver': ok, detail = replay_driver(d)
        elif d['kind'] == 'nonfinite': ok, detail = replay_nonfinite(d['item'])
        elif d['kind'] == 'project': n, bad = project_cases(); ok, detail = bool(bad), str(bad[:2])
        elif d['kind'] == 'roundtrip': ok, detail = replay_roundtrip((d['item'][0], d['item'][1], tuple(d['item'][2]), d['item'][3]))
        elif d['kind'] == 'droptol': ok, detail = replay_droptol(d)
        else: ok, detail = replay_constrain(tuple(tuple(x) if isinstance(x, list) else x for x in d['item']))
        print('REPRODUCED' if ok else 'not reproduced', detail); return 1 if ok else 0
    run = harness.Run(PID, 'other', args,
        'The certifying glue of the solvers is executed symbolically with the numerical back ends replaced by nondeterministic stubs: on every path of Matrix._solver, Matrix.solve and the '
        'System.solve driver z3 decides that a normal return implies the certificate (finite, constrained entries exact, residual within the effective tolerance, at least miniter iterations), '
        'for all matrix entries, right-hand sides, tolerances, stub results and residual-norm sequences (finite/NaN/inf) within the bounds.')
    run.stubs = STUBS
    run.assumptions = ['matrices n<=3 with real symbolic entries; NumPy backend glue only', 'the numerical algorithms themselves (factorisations, Krylov, line searches, time stepping) are outside the claim',
                       'tolerances atol, rtol >= 0; zero effective tolerance means "machine precision": nothing is certified by the code or by this check',
                       'driver: K iterations unrolled; norms are arbitrary values in {finite>=0, NaN, +inf}']
    thorough = args.tier == 'thorough'
    cases = []
    for n in ((1, 2, 3) if thorough else (1, 2)):
        for nonfinite in (False, True):
            for zero in (False, True): cases.append(('solver', (n, nonfinite, zero)))
    for n in ((2, 3) if thorough else (2,)):
        for cmask in itertools.product([0, 1], repeat=n):
            for mode in ('bool', 'float'):
                for use_lhs0 in (False, True):
                    cases.append(('constrain', (n, cmask, mode, use_lhs0, None)))
        cases.append(('constrain', (n, (1,) + (0,) * (n - 1), 'bool', True, (0,) * (n - 1) + (1,))))
    if not thorough: cases.append(('constrain', (3, (0, 1, 0), 'float', True, None)))
    # histories on one matrix object: an earlier solve with different row and column selections, then a solve whose free set equals the earlier free rows
    cases.append(('constrain', (2, (0, 1), 'bool', False, None, ((1, 0), (0, 1))))); cases.append(('constrain', (3, (0, 0, 1), 'bool', True, None, ((1, 0, 0), (0, 0, 1)))))
    cases.append(('constrain', (3, (0, 1, 0), 'float', False, None, ((0, 0, 1), (0, 1, 0))))); cases.append(('constrain', (2, (1, 0), 'float', True, None, ((1, 0), (1, 0)))))
    for n in ((1, 2, 3) if thorough else (1, 2)): cases.append(('guess', n))
    for K in ((2, 3, 4) if thorough else (2, 3)):
        for has_maxiter in (True, False): cases.append(('driver', (K, True, has_maxiter)))
    cases.append(('driver', (0, False, False)))
    for a_given in (False, True):
        for w_given in ((False, True) if thorough else (True,)):
            cases.append(('roundtrip', (a_given, 'none', (0, 0, 0), w_given)))
            for mask in itertools.product([0, 1], repeat=3):
                for mode in ('bool', 'float'): cases.append(('roundtrip', (a_given, mode, mask, w_given)))
    for ip in range(len(PATTERNS_CSR)): cases.append(('droptol', ip))
    if args.only: cases = [c for c in cases if args.only in str(c)]
    run.bounds = dict(cases=len(cases), matrix_size='n<=%d' % (3 if thorough else 2), driver_unroll='K<=%d' % (4 if thorough else 3))
    with harness.FuncTrace() as ft, treelog.set(treelog.NullLog()):
        solver_case((1, False, False)); driver_case((1, True, True))
    run.functions = {n for n in ft.names if 'matrix' in n or 'solver' in n}
    obligations = discharged = 0
    for out in harness.pmap(_case, cases, args.jobs, chunksize=1):
        if 'harness_error' in out: run.harness_error(out['harness_error'][:600]); continue
        run.case(out['key'], out['unsat'] > 0); run.paths += out['paths']
        obligations += out['unsat'] + out['unknown'] + len(out['cex']); discharged += out['unsat']
        run.queries['exact_unsat'] += out['unsat']; run.queries['unknown'] += out['unknown']; run.queries['sat'] += len(out['cex'])
        run.sample(dict(case=out['key'], paths=out['paths'], proved=out['unsat'], returned=out.get('returned'), raised=out.get('raised')), limit=12)
        if out['unknown']: run.unconfirmed(out['key'], f'{out["unknown"]} unknown')
        for c in out['cex']:
            if out['key'].startswith('System.solve') and c['kind'] == 'uncertified-return':
                ok, detail = replay_driver(c)
                if ok: run.violation('driver:nan-accepted', f'System.solve returns without certificate: {c["detail"]}; reproduced through the public API: {detail}', dict(c, kind='driver'))
                else: run.unconfirmed(out['key'], f'{c["detail"]}: not reproducible with a real method ({detail})')
            elif out['key'].startswith('solve ') and c['kind'] == 'constraint-violated':
                ok, detail = replay_constrain(out['item'])
                if ok: run.violation(f'constrain:{out["key"]}', f'Matrix.solve: {c["detail"]} for {out["key"]}: {detail}', dict(kind='constrain', item=list(out['item']), detail=c))
                else: run.unconfirmed(out['key'], f'{c["detail"]} (stub solver counterexample {c.get("model")}) did not reproduce with the direct solver: {detail}')
            elif c['kind'] == 'roundtrip':
                ok, detail = replay_roundtrip(out['item'])
                if ok: run.violation(f'roundtrip:{out["key"]}', f'{out["key"]}: {c["detail"]}: {detail}'[:600], dict(kind='roundtrip', item=list(out['item'])))
                else: run.unconfirmed(out['key'], f'{c["detail"]}: not reproduced ({detail})')
            elif c['kind'] == 'droptol':
                ok, detail = replay_droptol(c)
                if ok: run.violation(f'droptol:{out["key"]}', f'{out["key"]}: {c["detail"]}: {detail}'[:600], dict(c, kind='droptol'))
                else: run.unconfirmed(out['key'], f'{c["detail"]}: not reproduced ({detail})')
            elif c['kind'] == 'nonfinite-returned' and replay_nonfinite(out['item'])[0]:
                run.violation(f'solver:nonfinite:{out["key"]}', f'Matrix._solver returned a non-finite vector produced by the solver method ({out["key"]})', dict(kind='nonfinite', item=list(out['item'])))
            else:
                run.unconfirmed(out['key'], f'{c["kind"]}: {c["detail"]} {c.get("model", "")}'[:300])
    if not args.only or args.only == 'project':
        n, bad = project_cases()
        run.counters['project_constraint_aggregation_cases'] = n
        for b in bad[:5]: run.violation('project:' + b[:90], 'Topology.project does not keep earlier constraints: ' + b, dict(kind='project', note=b))
    # vacuity twins: (a) driver claim strengthened to "norm < tol/2" must be refutable; (b) a driver path that returns exists
    with treelog.set(treelog.NullLog()): tw = driver_case((1, True, True))
    run.twin(tw['returned'] > 0 and tw['raised'].get('SolverError', 0) > 0)
    return run.finish(dict(obligations=obligations, discharged=discharged, rule='case = one harness configuration; nontrivial = at least one certificate obligation proved on a returning path'))

def _case(c):
    kind, item = c
    with treelog.set(treelog.NullLog()):
        return _case1(kind, item)
def _case1(kind, item):
    out = dict(solver=solver_case, constrain=constrain_case, guess=guess_case, driver=driver_case, roundtrip=roundtrip_case, droptol=droptol_case)[kind](item)
    out['item'] = item
    return out

if __name__ == '__main__':
    sys.exit(main())
