'''C19 - expression strings mean their index-notation reading (versions 1 and 2).

A. meaning: syntax trees (terms with repeated-index summation and traces, numerals selecting elements, sums, fractions,
   powers, parentheses, pointwise functions, leading minus) over a namespace of per-point symbolic variables are rendered to
   strings, parsed by the real parser / Namespace (v2: 'expr' @ ns, v1: ns.eval_<indices>), lowered, compiled and run on z3
   terms.  The oracle evaluates the TREE by a small einsum reference on the same symbolic operands; z3 decides equality for
   all variable values; free indices in the documented (alphabetical / requested) order.
B. rejection: every documented rule is violated by construction; the parser must raise the module's ExpressionSyntaxError.
C. single-edit corruptions: every valid string, every position, every character of an alphabet (enumerated - auxiliary):
   the parser must return or raise ExpressionSyntaxError, never another exception type.'''
import sys, random, warnings, numpy, z3, itertools, string
warnings.simplefilter('ignore')
from symx import harness, tv, solve, fn
from symx.sym import explore, ctx, Unsupported, PathAbort, lift
from symx.sarray import SArray
from symx.run import sym_compile, STUBS
from symx.harness import Timeout, with_timeout
from nutils import function, evaluable as ev, expression_v1 as e1, expression_v2 as e2
import treelog

PID = 'C19'
VARS = {'a': (), 'b': (), 'x': (3,), 'y': (3,), 'u': (2,), 'A': (3, 3), 'B': (2, 3), 'C': (3, 3)}
FUNCS = {'sin': numpy.sin, 'cos': numpy.cos, 'exp': numpy.exp, 'abs': numpy.abs}

# ---- trees.  Every node evaluates to (SArray value, index string of its free axes in axis order)
def var(n, idx=''): return ('var', n, idx)
def num(s): return ('num', s)
def term(*f): return ('term',) + f
def add(*t): return ('add',) + t          # each item: (sign, tree)
def frac(n, d): return ('frac', n, d)
def power(b, e): return ('pow', b, e)
def paren(e): return ('paren', e)
def call(f, e): return ('call', f, e)
def neg(e): return ('neg', e)

def render(t):
    k = t[0]
    if k == 'var': return t[1] + ('_' + t[2] if t[2] else '')
    if k == 'num': return t[1]
    if k == 'term': return ' '.join(render(f) for f in t[1:])
    if k == 'add':
        s = ''
        for i, (sign, e) in enumerate(t[1:]):
            s += (('-' if sign < 0 else '') if i == 0 else (' - ' if sign < 0 else ' + ')) + render(e)
        return s
    if k == 'frac': return render(t[1]) + ' / ' + render(t[2])
    if k == 'pow': return render(t[1]) + '^' + render(t[2])
    if k == 'paren': return '(' + render(t[1]) + ')'
    if k == 'call': return t[1] + '(' + render(t[2]) + ')'
    if k == 'neg': return '-' + render(t[1])
    raise ValueError(k)

def ref_eval(t, vals):
    '''index-notation reading, independent of the parser'''
    k = t[0]
    if k == 'var':
        v = vals[t[1]]; idx = t[2]
        sel = tuple(int(c) if c.isdigit() else slice(None) for c in idx)
        if sel: v = v[sel]
        letters = ''.join(c for c in idx if not c.isdigit())
        return _trace(v, letters)
    if k == 'num': return SArray.wrap(numpy.array(float(t[1]))), ''
    if k == 'term':
        v, idx = ref_eval(t[1], vals)
        for f in t[2:]:
            w, jdx = ref_eval(f, vals)
            both = [c for c in idx if c in jdx]
            out = ''.join(c for c in idx + jdx if c not in both)
            v = numpy.einsum(f'{idx},{jdx}->{out}', v, w); idx = out
        return v, idx
    if k == 'add':
        tot = None; idx0 = None
        for sign, e in t[1:]:
            v, idx = ref_eval(e, vals)
            if idx0 is None: idx0 = idx
            elif sorted(idx) != sorted(idx0): raise ValueError('index sets differ')
            elif idx != idx0: v = numpy.einsum(f'{idx}->{idx0}', v)
            tot = (v if sign > 0 else -v) if tot is None else (tot + v if sign > 0 else tot - v)
        return tot, idx0
    if k == 'frac':
        n, idx = ref_eval(t[1], vals); d, jdx = ref_eval(t[2], vals)
        assert jdx == ''
        return n / d, idx
    if k == 'pow':
        b, idx = ref_eval(t[1], vals); e, jdx = ref_eval(t[2], vals)
        assert jdx == ''
        return b ** e, idx
    if k == 'paren': return ref_eval(t[1], vals)
    if k == 'call':
        v, idx = ref_eval(t[2], vals); return FUNCS[t[1]](v), idx
    if k == 'neg':
        v, idx = ref_eval(t[1], vals); return -v, idx
    raise ValueError(k)

def _trace(v, letters):
    seen = ''
    for c in letters:
        if c not in seen: seen += c
    if len(seen) == len(letters): return v, letters
    out = ''.join(c for c in seen if letters.count(c) == 1)
    return numpy.einsum(f'{letters}->{out}', v), out

def free(t):
    '''free index letters of a tree (None if ill-formed for our generator)'''
    k = t[0]
    if k == 'var':
        L = [c for c in t[2] if not c.isdigit()]
        if any(L.count(c) > 2 for c in L): return None
        return ''.join(c for c in dict.fromkeys(L) if L.count(c) == 1)
    if k == 'num': return ''
    if k == 'term':
        cnt = {}
        allL = []
        for f in t[1:]:
            fi = free(f)
            if fi is None: return None
            inner = [c for c in f[2] if not c.isdigit()] if f[0] == 'var' else list(fi)
            for c in set(inner):
                cnt[c] = cnt.get(c, 0) + (inner.count(c) if f[0] == 'var' else 1)
            allL += list(fi)
        if any(n > 2 for n in cnt.values()): return None
        tot = {}
        for f in t[1:]:
            for c, n in count_letters(f).items(): tot[c] = tot.get(c, 0) + n
        if any(n > 2 for n in tot.values()): return None     # the parsers count every occurrence of a letter inside a term, nested scopes included
        return ''.join(c for c in dict.fromkeys(allL) if allL.count(c) == 1)
    if k == 'add':
        fs = [free(e) for _, e in t[1:]]
        if any(f is None for f in fs) or any(sorted(f) != sorted(fs[0]) for f in fs): return None
        return fs[0]
    if k in ('frac', 'pow'):
        a, b = free(t[1]), free(t[2])
        if letters(t[1]) & letters(t[2]): return None      # an index letter reused in the denominator/exponent is ambiguous notation (v1 rejects it): not generated
        return a if a is not None and b == '' else None
    if k in ('paren', 'neg'): return free(t[1])
    if k == 'call': return free(t[2])

def count_letters(t):
    import collections
    if t[0] == 'var': return collections.Counter(c for c in t[2] if not c.isdigit())
    out = collections.Counter()
    for c in t[1:]:
        if isinstance(c, tuple) and c and isinstance(c[0], str): out += count_letters(c)
        elif isinstance(c, tuple) and len(c) == 2 and isinstance(c[1], tuple): out += count_letters(c[1])
    return out

def letters(t):
    if t[0] == 'var': return {c for c in t[2] if not c.isdigit()}
    out = set()
    for c in t[1:]:
        if isinstance(c, tuple) and c and isinstance(c[0], str): out |= letters(c)
        elif isinstance(c, tuple) and len(c) == 2 and isinstance(c[1], tuple): out |= letters(c[1])
    return out

def lengths_ok(t, env=None):
    '''each index letter must have one length'''
    env = {} if env is None else env
    def walk(t):
        if t[0] == 'var':
            shape = VARS[t[1]]
            if len(t[2]) != len(shape): return False
            for c, n in zip(t[2], shape):
                if c.isdigit():
                    if int(c) >= n: return False
                elif env.setdefault(c, n) != n: return False
            return True
        return all(walk(c) if isinstance(c, tuple) and c and isinstance(c[0], str) else (walk(c[1]) if isinstance(c, tuple) and len(c) == 2 and isinstance(c[1], tuple) else True) for c in t[1:])
    return walk(t)

def atoms():
    out = [var('a'), var('b')]
    for n in ('x', 'y'): out += [var(n, c) for c in 'ij0'] + [var(n, '2')]
    out += [var('u', c) for c in 'k1']
    for n in ('A', 'C'): out += [var(n, i) for i in ('ij', 'ji', 'jk', 'ii', 'i0', '1j', '21', 'ik')]
    out += [var('B', i) for i in ('ki', 'kj', '0i', 'k2')]
    return out

def trees(tier, seed):
    rng = random.Random(seed)
    A = atoms()
    T = []
    # terms of 1..3 factors
    for n in (1, 2, 3):
        combos = list(itertools.product(A, repeat=n))
        if n == 3: combos = rng.sample(combos, 600 if tier == 'quick' else 6000)
        elif n == 2 and tier == 'quick': combos = rng.sample(combos, 250)
        for c in combos:
            t = term(*c)
            if free(t) is not None and lengths_ok(t): T.append(t)
    terms = list(T)
    out = list(terms)
    # numbers at term start, leading minus
    for t in rng.sample(terms, 40): out.append(term(num(rng.choice(['2', '1.5', '.5', '3'])), *t[1:]))
    for t in rng.sample(terms, 30): out.append(neg(t))
    # sums of two/three terms with the same index set
    by = {}
    for t in terms: by.setdefault(''.join(sorted(free(t))), []).append(t)
    for key, ts in by.items():
        for _ in range(60 if tier == 'quick' else 600):
            k = rng.choice([2, 2, 3])
            parts = [(rng.choice([1, -1]), rng.choice(ts)) for _ in range(k)]
            t = add(*parts)
            if lengths_ok(t): out.append(t)
    scal = by.get('', [])
    # fractions, powers, parentheses, functions
    for _ in range(150 if tier == 'quick' else 1500):
        t = rng.choice(terms); s = rng.choice(scal)
        out.append(frac(t, s))
        out.append(term(paren(add((1, rng.choice(by[''.join(sorted(free(t)))])), (rng.choice([1, -1]), t))), rng.choice(A)))
        out.append(power(rng.choice([var('a'), var('b'), paren(add((1, s), (1, var('a'))))]), rng.choice([num('2'), num('3'), paren(add((1, num('1')), (1, num('1')))), num('-1')])))
        out.append(term(call(rng.choice(list(FUNCS)), t), rng.choice(A)))
        out.append(add((1, term(power(paren(t), num('2')))), (-1, t)) if False else term(power(paren(s), num('2')), t))
        out.append(frac(term(num('2'), *t[1:]), term(num('3'), s)))
    good = []
    seen = set()
    for t in out:
        s = render(t)
        if s in seen or free(t) is None or not lengths_ok(t): continue
        seen.add(s); good.append(t)
    return good

def namespaces():
    ns1, ns2 = e1.Namespace(), e2.Namespace()
    for n, shape in VARS.items():
        setattr(ns1, n, fn.PointArg(n, shape)); setattr(ns2, n, fn.PointArg(n, shape))
    return ns1, ns2

def parse(version, s, idx):
    ns1, ns2 = namespaces()
    if version == 2:
        return s @ ns2
    return getattr(ns1, 'eval_' + idx)(s)

def case(item):
    i, version, t = item
    s = render(t)
    key = f'v{version}: {s}'
    res = dict(key=key, viol=[], unconfirmed=[], q=dict(exact_unsat=0, margin_unsat=0, sat=0, unknown=0, trivial=0), status='ok', nontrivial=False, item=[i, version])
    fr = ''.join(sorted(free(t)))
    try:
        f = parse(version, s, fr)
    except Exception as ex:
        res['viol'].append((f'{key}: valid expression rejected: {type(ex).__name__}: {str(ex)[:150]}', dict(kind='rejected', string=s, version=version))); return res
    f = function.Array.cast(f)
    names = sorted(VARS)
    try:
        with treelog.set(treelog.NullLog()):
            cf = with_timeout(60, lambda: sym_compile(fn.lower(f, ())))
    except Exception as ex:
        res['status'] = 'compile:' + type(ex).__name__; return res
    def run():
        vals = {n: SArray.symbolic(n, VARS[n]) for n in names}
        v, idx = ref_eval(t, vals)
        if idx != fr: v = numpy.einsum(f'{idx}->{fr}', v)
        d0 = list(ctx().defined)
        got = cf(vals)
        return v, SArray.wrap(got), vals, d0
    try:
        paths, _ = with_timeout(90, lambda: explore(run, max_paths=4, timeout_ms=10000))
    except Timeout:
        res['status'] = 'timeout'; return res
    P = paths[0]
    if P.tag != 'ok':
        res['status'] = P.tag; return res
    ref, got, vals, d0 = P.value
    if solve.structure(ref) != solve.structure(got):
        res['viol'].append((f'{key}: result has shape {got.shape}, the index-notation reading gives {ref.shape} (free indices {fr!r})', dict(kind='shape', string=s, version=version))); return res
    v = solve.equiv(ref, got, pc=P.pc, defined=d0, side=P.side, timeout_ms=10000, margin=1e-9, budget_s=20)
    for k, n in v.counts().items(): res['q'][k] += n
    detail = ''
    for idx_, m in v.models[:2]:
        cv = {n: numpy.asarray(x) for n, x in solve.concretize(m, vals).items()}
        ok, detail = replay(version, t, cv)
        if ok:
            res['viol'].append((f'{key}: value differs from the index-notation reading: {detail}'[:500], dict(kind='value', string=s, version=version, values=tv.tolist(cv)))); break
    else:
        if v.models: res['unconfirmed'].append(f'{key}: model did not reproduce ({detail})')
    res['nontrivial'] = res['q']['exact_unsat'] + res['q']['sat'] + res['q']['margin_unsat'] > 0
    return res

def replay(version, t, cv):
    s = render(t); fr = ''.join(sorted(free(t)))
    try:
        f = function.Array.cast(parse(version, s, fr))
        with treelog.set(treelog.NullLog()), numpy.errstate(all='ignore'):
            got = ev.compile(fn.lower(f, ()))({n: numpy.asarray(cv[n], dtype=float) for n in VARS})
            paths, _ = explore(lambda: ref_eval(t, {n: SArray.wrap(numpy.asarray(cv[n], dtype=float)) for n in VARS}), max_paths=2)
            v, idx = paths[0].value
            ref = v.a.astype(float)
            if idx != fr: ref = numpy.einsum(f'{idx}->{fr}', ref)
    except Exception as ex:
        return True, f'raised {type(ex).__name__}: {ex}'
    if not tv.finite(ref): return False, 'reference not finite'
    return (not tv.same(ref, numpy.asarray(got), rtol=1e-8)), f'parser gives {tv.tolist(got)}, reading gives {tv.tolist(ref)} at {tv.tolist(cv)}'

# ---------------------------------------------------------------- B: rule violations

def violations(rng, good):
    '''(version or 0 for both, string, rule)'''
    out = []
    base = ['a x_i', 'A_ij x_j', 'A_ij + C_ij', 'x_i y_i / a', 'a^2 + b', '(x_i + y_i) A_ij', 'sin(x_i) y_i', 'B_ki x_i', '2 a b', 'A_ii + a']
    out += [(0, 'A_iii', 'index more than twice'), (0, 'x_i y_i A_ij', 'index more than twice in a term'), (0, 'x_i x_i x_i', 'index thrice'), (0, 'A_ij + B_ij', 'mismatching lengths'), (0, 'x_i + u_i', 'mismatching lengths'), (0, 'B_ki x_k', 'mismatching lengths in a product'),
            (0, 'A_ij + x_i', 'different index sets'), (0, 'a + x_i', 'different index sets'), (0, 'x_i + y_j', 'different index sets'), (0, 'q x_i', 'unknown name'), (0, 'x_i + zz', 'unknown name'), (0, 'foo(a)', 'unknown function'),
            (0, '2 2 a', 'number not at term start'), (0, 'a 2', 'number not at term start'), (0, 'a+b', 'missing blanks'), (0, 'a +b', 'missing blanks'), (0, 'a+ b', 'missing blanks'), (0, 'a -b', 'missing blanks'), (0, 'a + -b', 'negation of a non-leading term'),
            (0, '(a + b', 'unbalanced'), (0, 'a + b)', 'unbalanced'), (0, '(a + b]', 'mismatched brackets'), (0, 'sin(a', 'unbalanced'), (0, 'x_i / y_i', 'denominator not scalar') , (2, '2 a_i / b_i' if False else 'a / x_i', 'denominator not scalar'), (0, 'a^x_i', 'non-scalar exponent'),
            (0, 'A_i', 'wrong number of indices'), (0, 'x_ij', 'wrong number of indices'), (0, 'a_i', 'index on a scalar'), (0, 'x_3', 'numeral out of range'), (0, '', 'empty'), (0, 'a  b' if False else 'a + ', 'dangling operator'), (0, '+ a', 'leading plus'), (0, 'a / ', 'dangling fraction'), (0, 'a ^2', 'blank before power'),
            (0, 'x_i_j', 'double underscore'), (0, '1x', 'name starts with a digit'),
            # an index that is free in the numerator (or base) and summed inside the denominator (or exponent) occurs three times
            (0, 'x_i / y_i y_i', 'index more than twice across a fraction'), (0, 'x_i / A_ii', 'index more than twice across a fraction'), (0, 'A_ij x_j / y_i y_i', 'index more than twice across a fraction'),
            (0, 'x_i / (y_i y_i)', 'index more than twice across a fraction'), (0, 'x_i y_j / y_j y_j', 'index more than twice across a fraction'), (0, 'x_i (a / y_i y_i)', 'index more than twice across a fraction'),
            (0, 'x_i^(y_i y_i)', 'index more than twice across a power'), (0, 'A_ij^(x_i x_i)', 'index more than twice across a power'), (0, 'x_i y_i / x_i x_i', 'index more than twice across a fraction'), (0, 'A_ij / B_kj B_kj' if False else 'A_ij / y_j y_j', 'index more than twice across a fraction')]
    return out

def rejection_case(item):
    version, s, rule = item
    res = []
    for ver in ((1, 2) if version == 0 else (version,)):
        mod = e1 if ver == 1 else e2
        try:
            ns1, ns2 = namespaces()
            if ver == 2: r = s @ ns2
            else:
                r = None
                for idx in ('', 'i', 'ij', 'j', 'k', 'ik', 'jk'):
                    try:
                        r = getattr(ns1, 'eval_' + idx)(s); break
                    except mod.ExpressionSyntaxError as ex:
                        last = ex; continue
                if r is None: raise last
            res.append((ver, 'accepted', str(getattr(r, 'shape', r))))
        except mod.ExpressionSyntaxError:
            res.append((ver, 'syntaxerror', ''))
        except Exception as ex:
            res.append((ver, 'other', f'{type(ex).__name__}: {ex}'[:120]))
    return dict(string=s, rule=rule, results=res)

# ---------------------------------------------------------------- C: single-edit corruptions (enumerated)

ALPHABET = list('abxAB_ij01 +-/^()[]{}.,2') + ['é', '\t']
def _function_level(ex):
    '''a grammatical string whose function call is ill-formed (wrong number or shapes of arguments) is rejected by the applied function, or by the namespace's check of
    the function result, with that function's own exception: not a violation of a documented syntax rule.  Everything raised by parser/namespace code itself is.'''
    if 'when calling' in str(ex): return True
    tb = ex.__traceback__; last = None
    while tb is not None: last = tb; tb = tb.tb_next
    fn = last.tb_frame.f_code.co_filename if last is not None else ''
    return not (fn.endswith('expression_v1.py') or fn.endswith('expression_v2.py'))
def corruption_case(item):
    version, s = item
    mod = e1 if version == 1 else e2
    bad = []; n = 0
    ns1, ns2 = namespaces()
    for pos in range(len(s) + 1):
        for ch in ALPHABET:
            for edited in ((s[:pos] + ch + s[pos:]), (s[:pos] + ch + s[pos + 1:]) if pos < len(s) else None):
                if edited is None: continue
                n += 1
                try:
                    if version == 2: r = edited @ ns2
                    else: r = ns1.eval_ij(edited) if False else e1.parse(edited, {k: VARS[k] for k in VARS} if False else None, None) if False else _v1_any(ns1, edited)
                except (mod.ExpressionSyntaxError, SyntaxError): pass      # v1 reports removed syntax (gradient with explicit geometry) with the builtin SyntaxError
                except Exception as ex:
                    if not _function_level(ex): bad.append(f'v{version} {edited!r}: {type(ex).__name__}: {ex}'[:160])
        if pos < len(s):
            n += 1; edited = s[:pos] + s[pos + 1:]
            try:
                r = (edited @ ns2) if version == 2 else _v1_any(ns1, edited)
            except (mod.ExpressionSyntaxError, SyntaxError): pass
            except Exception as ex:
                if not _function_level(ex): bad.append(f'v{version} {edited!r}: {type(ex).__name__}: {ex}'[:160])
    return dict(n=n, bad=bad)

def _v1_any(ns1, s):
    last = None
    for idx in ('', 'i', 'ij', 'j'):
        try: return getattr(ns1, 'eval_' + idx)(s)
        except e1.ExpressionSyntaxError as ex: last = ex
    raise last

def main(argv=None):
    args = harness.parse_args(PID, argv)
    T = trees(args.tier, args.seed)
    if args.replay:
        import json
        d = json.load(open(args.replay))['replay']
        if d['kind'] in ('value', 'shape', 'rejected'):
            t = [t for t in trees('thorough', args.seed) + T if render(t) == d['string']]
            if not t: print('not reproduced (string not in the family for this seed)'); return 0
            r = case((0, d['version'], t[0])); ok = bool(r['viol'])
        elif d['kind'] == 'rule':
            r = rejection_case((d['version'], d['string'], d['rule'])); ok = any(x[1] != 'syntaxerror' for x in r['results'])
        else:
            r = corruption_case((d['version'], d['string'])); ok = bool(r['bad'])
        print('REPRODUCED' if ok else 'not reproduced', str(r)[:400]); return 1 if ok else 0
    run = harness.Run(PID, 'translation_validation', args,
        'Syntax trees are rendered to expression strings, parsed by the real v1 and v2 parsers/namespaces into function arrays over per-point symbolic variables, lowered, compiled and run on z3 terms; the oracle evaluates the tree '
        'by its index-notation reading (einsum reference).  z3 decides equality per element for all variable values.  Rule violations must raise ExpressionSyntaxError; single-character edits must never raise another exception type (enumerated).')
    run.stubs = STUBS + ['oracle: einsum reading of the syntax tree on the same symbolic operands']
    run.assumptions = ['jump/mean, gradients/normals and generated axes need a topology: not in the tree family', 'the meaning of accepted corrupted strings is not checked (no independent reference parser)', 'v1 is called through ns.eval_<sorted free indices>']
    rng = random.Random(args.seed)
    nq = 400 if args.tier == 'quick' else len(T)
    sel = T if len(T) <= nq else rng.sample(T, nq)
    items = [(i, 2, t) for i, t in enumerate(sel)] + [(i, 1, t) for i, t in enumerate(sel) if i % (3 if args.tier == 'quick' else 1) == 0]
    if args.only: items = [it for it in items if args.only in render(it[2])]
    run.bounds = dict(trees=len(sel), cases=len(items), variables=VARS, max_factors=3, max_terms=3)
    with harness.FuncTrace() as ft:
        case(items[0]); case(items[-1])
    run.functions = {n for n in ft.names if 'expression' in n}
    # vacuity twin
    ns1, ns2 = namespaces(); f = function.Array.cast('A_ij x_j' @ ns2); cf = sym_compile(fn.lower(f, ()))
    def tw():
        vals = {n: SArray.symbolic(n, VARS[n]) for n in VARS}
        return ref_eval(term(var('A', 'ji'), var('x', 'j')), vals)[0], SArray.wrap(cf(vals))
    paths, _ = explore(tw); a_, b_ = paths[0].value; run.twin(solve.equiv(a_, b_).sat > 0)
    for res in harness.pmap(case, items, args.jobs, chunksize=4):
        if 'harness_error' in res:
            run.counters['worker_error'] += 1
            if run.counters['worker_error'] <= 5: run.inconclusive.append('worker error: ' + res['harness_error'][:500])
            continue
        run.counters[res['status']] += 1
        run.case(res['key'], res['nontrivial']); run.add_queries(res['q'])
        for what, rp in res['viol']: run.violation(f'{rp["kind"]}:v{rp["version"]}:{rp["string"]}', what, rp)
        for u in res['unconfirmed']: run.unconfirmed(res['key'], u)
        if res['nontrivial']: run.sample(dict(expression=res['key'], queries=res['q']), limit=12)
    V = violations(rng, T)
    for r in harness.pmap(rejection_case, V, args.jobs, chunksize=8):
        if 'harness_error' in r: run.counters['worker_error'] += 1; continue
        for ver, outcome, detail in r['results']:
            run.case(f'reject v{ver}: {r["string"]!r}', False)
            run.counters['rule_violations_' + outcome] += 1
            if outcome == 'accepted': run.violation(f'rule:v{ver}:{r["string"]}', f'v{ver}: {r["string"]!r} violates "{r["rule"]}" but is accepted (result {detail})', dict(kind='rule', version=ver, string=r['string'], rule=r['rule']))
            elif outcome == 'other': run.violation(f'rule:v{ver}:{r["string"]}', f'v{ver}: {r["string"]!r} violates "{r["rule"]}" and raises {detail} instead of ExpressionSyntaxError', dict(kind='rule', version=ver, string=r['string'], rule=r['rule']))
    base = ['a x_i', 'A_ij x_j + y_i', 'x_i y_i / a', '(a + b)^2 x_0', 'sin(x_i) A_ij', '-2 A_ii b', 'B_ki x_i']
    cor = [(v, s) for v in (2, 1) for s in (base if args.tier == 'quick' else base + [render(t) for t in rng.sample(T, 40)])]
    ncor = 0
    for r in harness.pmap(corruption_case, cor, args.jobs, chunksize=1):
        if 'harness_error' in r: run.counters['worker_error'] += 1; run.inconclusive.append(r['harness_error'][:300]); continue
        ncor += r['n']
        for b in r['bad'][:3]: run.violation('corruption:' + b[:80], 'single-edit corruption raises a non-syntax exception: ' + b, dict(kind='corruption', version=int(b[1]), string=b.split("'")[1] if "'" in b else b))
    run.counters['single_edit_corruptions_enumerated'] = ncor
    return run.finish(dict(programs=run.cases, disagreements_checked=run.queries['sat'] + len(run.violations)))

if __name__ == '__main__':
    sys.exit(main())
