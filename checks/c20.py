'''C20 - physical dimensions are tracked soundly (partially applicable).

Every entry of the real Quantity dispatch table (read by introspection) and every operator dunder is applied to quantities
whose MAGNITUDES are z3-symbolic (Dim.wrap of a symbolic array) and whose dimensions range over a grid of exponent vectors;
the oracle is an independent exponent-vector model (add / subtract / scale exponents; equality required for add-like,
comparison, stack, setitem) for the resulting type or DimensionError, and the unwrapped value must be equivalent (z3) to
the same operation on the plain symbolic magnitudes.  Unit parsing/formatting round trips are enumerated over the real
unit table (auxiliary).  Symbolic exponents and decimal formatting are outside the claim.'''
import sys, warnings, numpy, z3, itertools, operator, fractions, random
warnings.simplefilter('ignore')
from nutils import SI, function, mesh, topology, sample
import treelog
from symx import harness, solve as S, tv
from symx.sym import *
from symx.sarray import SArray

PID = 'C20'
F = fractions.Fraction
TABLE = SI.Quantity._Quantity__DISPATCH_TABLE
BASES = ('L', 'T', 'M')

def powers(cls):
    if cls is float or cls is int or not isinstance(cls, SI.Dimension): return {}
    return dict(cls._Dimension__powers)
def dim(p): return SI.Dimension.from_powers({k: F(v) for k, v in p.items() if v})
def vec(p): return tuple(F(p.get(b, 0)) for b in BASES)
def padd(a, b, s=1): return {k: F(a.get(k, 0)) + s * F(b.get(k, 0)) for k in set(a) | set(b)}
def pscale(a, c): return {k: F(v) * F(c) for k, v in a.items()}
def norm(p): return {k: v for k, v in p.items() if v}

DIMS = [{}, {'L': 1}, {'T': 1}, {'L': 1, 'T': -1}, {'L': 2}, {'M': 1, 'L': 1, 'T': -2}, {'L': F(1, 2)}, {'T': -2}]

def Q(p, mag):
    '''quantity (or plain value for the empty dimension) with the given magnitude'''
    return dim(p).wrap(mag) if norm(p) else mag
def typeof(x):
    return powers(type(x)) if isinstance(x, SI.Quantity) else {}
def mag(x): return x.unwrap() if isinstance(x, SI.Quantity) else x

# independent rule table: function -> (rule, call builder).  rule gives the expected dimension (or 'error') from operand dimensions.
def rules():
    R = {}
    def same(pa, pb): return pa if norm(pa) == norm(pb) else 'error'
    def first(pa, pb=None): return pa
    def add_(pa, pb): return norm(padd(pa, pb))
    def sub_(pa, pb): return norm(padd(pa, pb, -1))
    def plain_same(pa, pb): return {} if norm(pa) == norm(pb) else 'error'
    for f in (numpy.absolute, numpy.conjugate, numpy.imag, numpy.real, numpy.negative, numpy.positive, operator.abs, operator.neg, operator.pos): R[f] = ('unary', lambda f, a, b: f(a), first)
    for f in (numpy.amax, numpy.amin, numpy.max, numpy.min, numpy.sum, numpy.mean, numpy.ptp, numpy.linalg.norm): R[f] = ('unary', lambda f, a, b: f(a), first)
    R[numpy.trace] = ('unary2d', lambda f, a, b: f(a), first); R[numpy.transpose] = ('unary2d', lambda f, a, b: f(a), first)
    R[numpy.reshape] = ('unary', lambda f, a, b: f(a, (1, 2)), first); R[numpy.broadcast_to] = ('unary', lambda f, a, b: f(a, (3, 2)), first)
    R[numpy.take] = ('unary', lambda f, a, b: f(a, [1, 0, 1]), first); R[operator.getitem] = ('unary', lambda f, a, b: f(a, slice(None, None, -1)), first)
    for f in (numpy.add, numpy.subtract, numpy.maximum, numpy.minimum, numpy.hypot, operator.add, operator.sub, operator.mod): R[f] = ('binary', lambda f, a, b: f(a, b), same)
    for f in (numpy.multiply, operator.mul): R[f] = ('binary', lambda f, a, b: f(a, b), add_)
    for f in (numpy.matmul, operator.matmul): R[f] = ('binary', lambda f, a, b: f(a, b), add_)
    for f in (numpy.divide, operator.truediv): R[f] = ('binary', lambda f, a, b: f(a, b), sub_)
    R[numpy.sqrt] = ('unary', lambda f, a, b: f(a), lambda pa, pb=None: norm(pscale(pa, F(1, 2))))
    for f in (numpy.power, operator.pow):
        for e in (2, 3, -1, F(1, 2), 0):
            R[(f, e)] = ('unary', (lambda e: lambda f, a, b: f(a, e if not isinstance(e, F) else float(e)))(e), (lambda e: lambda pa, pb=None: norm(pscale(pa, e)))(e))
    for f in (numpy.isfinite, numpy.isnan): R[f] = ('unary', lambda f, a, b: f(a), lambda pa, pb=None: {})
    for f in (numpy.ndim, numpy.shape, numpy.size): R[f] = ('meta', lambda f, a, b: f(a), lambda pa, pb=None: {})
    for f in (numpy.equal, numpy.greater, numpy.greater_equal, numpy.less, numpy.less_equal, numpy.not_equal, operator.eq, operator.ge, operator.gt, operator.le, operator.lt, operator.ne): R[f] = ('binary', lambda f, a, b: f(a, b), plain_same)
    for f in (numpy.stack, numpy.concatenate): R[f] = ('binary', lambda f, a, b: f([a, b]), same)
    R[operator.setitem] = ('setitem', None, same)
    R[numpy.interp] = ('interp', None, None)
    return R

# entries that need a mesh / sample / topology: dimension rule checked on a real 1-element mesh with concrete magnitudes (no solver)
MESH_RULES = {
    'grad': lambda pf, pg: norm(padd(pf, pg, -1)), 'div': lambda pf, pg: norm(padd(pf, pg, -1)), 'curl': lambda pf, pg: norm(padd(pf, pg, -1)), 'surfgrad': lambda pf, pg: norm(padd(pf, pg, -1)),
    'laplace': lambda pf, pg: norm(padd(pf, pscale(pg, 2), -1)), 'normal': lambda pg, _=None: {}, 'normalized': lambda pf, _=None: {}, 'jacobian': None, 'curvature': lambda pg, _=None: norm(pscale(pg, -1)),
}
DECLINED = {'derivative': 'argument manipulation on quantities: unary pass-through, covered by the unary rule on plain arrays only', 'factor': 'idem', 'jump': 'needs interfaces', 'kronecker': 'unary pass-through', 'linearize': 'idem',
            'swap_spaces': 'idem', 'opposite': 'idem', 'replace_arguments': 'idem', 'scatter': 'idem', 'evaluate': 'tuple pass-through', 'field': 'product of dims (checked concretely below)', 'arguments_for': 'no dimension',
            'locate': 'dimension rule checked concretely below; the numerics are C11 (declined)', 'bind': 'sample pass-through (checked concretely below)', 'integral': 'sample pass-through (checked concretely below)'}

def fname(f):
    f0 = f[0] if isinstance(f, tuple) else f
    return getattr(f0, '__name__', str(f0)) + (f'^{f[1]}' if isinstance(f, tuple) else '')

def sym(name, shape): return SArray.symbolic(name, shape)

def case(item):
    key, pa, pb = item
    Rl = rules()
    f = KEYS[key]
    rule, call, expect = Rl[f]
    f0 = f[0] if isinstance(f, tuple) else f
    out = dict(key=f'{fname(f)} {vec(pa)} {vec(pb)}', viol=[], q=dict(exact_unsat=0, sat=0, unknown=0, trivial=0), status='ok')
    entry = TABLE.get(f0)
    def run():
        shape = (2, 2) if rule == 'unary2d' or f0 in (numpy.matmul, operator.matmul) else (2,)
        a = sym('a', shape); b = sym('b', shape)
        if f0 in (operator.mod,): ctx().defined.append(z3.And(*[x.t != 0 for x in b.a.flat]))
        qa, qb = Q(pa, a), Q(pb, b)
        if not isinstance(qa, SI.Quantity) and not isinstance(qb, SI.Quantity): return 'skip', None, None, None
        if rule == 'setitem':
            tgt = Q(pa, a.copy())
            if not isinstance(tgt, SI.Quantity): return 'skip', None, None, None
            try:
                tgt[0] = Q(pb, b)[1] if isinstance(qb, SI.Quantity) else b[1]
            except SI.DimensionError: return 'error', None, None, None
            ref = a.copy(); ref[0] = b[1]
            return 'ok', tgt, ref, (a, b)
        if rule == 'interp':
            xp = numpy.array([0., 1., 3.]); fp = numpy.array([1., -1., 2.])
            try:
                r = numpy.interp(qa, Q(pa, xp), Q(pb, fp))
            except SI.DimensionError: return 'error', None, None, None
            return 'ok', r, numpy.interp(a, xp, fp), (a, b)
        # unary rules must be applied to a quantity; operator dunders go through the operator module (exercises __r*__ when the left operand is plain)
        try:
            r = call(f0, qa, qb)
        except SI.DimensionError:
            return 'error', None, None, None
        except TypeError as ex:
            # operator dunders turn DimensionError into NotImplemented, which Python reports as TypeError: also a rejection
            if 'not supported between instances' in str(ex) or 'unsupported operand type' in str(ex): return 'error', None, None, None
            raise
        ref = call(f0, a, b)
        return 'ok', r, ref, (a, b)
    paths, complete = explore(run, max_paths=16, timeout_ms=10000)
    for P in paths:
        if P.tag == 'abort': continue
        if P.tag == 'unsupported': out['status'] = 'unsupported'; continue
        if P.tag == 'exc':
            if isinstance(P.value, TypeError) and not (norm(pa) or rule != 'binary'):   # plain left operand with a numpy function: NotImplemented paths are not dimension errors
                out['status'] = 'typeerror'; continue
            out['viol'].append((f'{out["key"]}: raised {type(P.value).__name__}: {P.value}'[:300], dict(kind='raises'))); continue
        tag, r, ref, ab = P.value
        if tag == 'skip': out['status'] = 'skip'; continue
        if rule == 'interp': want = pb if norm(pa) == norm(pa) else 'error'
        elif rule in ('unary', 'unary2d', 'meta'):
            if not norm(pa): out['status'] = 'skip'; continue
            want = expect(pa)
        else: want = expect(pa, pb)
        if tag == 'error':
            if want != 'error': out['viol'].append((f'{out["key"]}: DimensionError although the dimensions are compatible (expected {want})', dict(kind='over-rejection')))
            continue
        if want == 'error' and f0 in (operator.eq, operator.ne):
            continue   # Python equality protocol: == / != of incomparable operands fall back to identity (False / True); numpy.equal / not_equal do reject
        if want == 'error':
            out['viol'].append((f'{out["key"]}: operands of different dimension accepted, result type {type(r).__name__}', dict(kind='accepted'))); continue
        got = norm(typeof(r))
        if got != norm(want):
            out['viol'].append((f'{out["key"]}: result has dimension {got}, the algebra of dimensions gives {norm(want)}', dict(kind='dimension'))); continue
        if rule == 'meta': continue
        m_r, m_ref = mag(r), ref
        try:
            if S.structure(SArray.wrap(m_r)) != S.structure(SArray.wrap(m_ref)):
                out['viol'].append((f'{out["key"]}: magnitude structure {S.structure(SArray.wrap(m_r))} vs plain {S.structure(SArray.wrap(m_ref))}', dict(kind='structure'))); continue
            v = S.equiv(SArray.wrap(m_ref), SArray.wrap(m_r), pc=P.pc, defined=P.defined, side=P.side, timeout_ms=10000)
        except Unsupported:
            out['status'] = 'unsupported'; continue
        for k, n in v.counts().items():
            if k in out['q']: out['q'][k] += n
        for idx, m in v.models[:1]:
            out['viol'].append((f'{out["key"]}: magnitude differs from the same computation on plain numbers (element {idx}) for a={tv.tolist(S.concretize(m, ab[0]))} b={tv.tolist(S.concretize(m, ab[1]))}', dict(kind='value')))
    return out

KEYS = {}
def build_keys():
    for i, f in enumerate(rules()): KEYS[i] = f
build_keys()

def mesh_cases():
    '''dimension rules of the differential operators / sample methods on a real mesh (concrete; auxiliary)'''
    bad = []; n = 0
    topo, geom0 = mesh.unitsquare(2, 'square')
    L, T = {'L': 1}, {'T': 1}
    with treelog.set(treelog.NullLog()):
        for pg, pf in itertools.product([L, {'L': 1, 'T': -1}], [T, {}, {'M': 1}]):
            geom = Q(pg, geom0); f = Q(pf, geom0[0] * geom0[1]); fv = Q(pf, geom0 * 2.)
            checks = [('grad', lambda: function.grad(f, geom), padd(pf, pg, -1)), ('laplace', lambda: function.laplace(f, geom), padd(pf, pscale(pg, 2), -1)), ('div', lambda: function.div(fv, geom), padd(pf, pg, -1)),
                      ('normal', lambda: function.normal(geom), {}), ('jacobian', lambda: function.jacobian(geom, 2), pscale(pg, 2)), ('integral', lambda: topo.sample('gauss', 1).integral(f), pf), ('bind', lambda: topo.sample('gauss', 1).bind(f), pf),
                      ('surfgrad', lambda: function.surfgrad(f, geom), padd(pf, pg, -1)), ('field', lambda: function.field('u', Q(pf, topo.basis('std', degree=1))), pf)]
            for name, build, want in checks:
                n += 1
                try:
                    r = build()
                except Exception as ex:
                    bad.append(f'{name} geom{vec(pg)} f{vec(pf)}: raised {type(ex).__name__}: {ex}'[:200]); continue
                if norm(typeof(r)) != norm(want): bad.append(f'{name} geom{vec(pg)} f{vec(pf)}: dimension {norm(typeof(r))}, expected {norm(want)}')
        # locate compares distances with tol / maxdist: those must carry the dimension of the geometry (the numerics of locate are not the subject: the dimension
        # rule is exercised on a structured mesh where locate is a closed formula)
        t1, g1 = mesh.rectilinear([numpy.linspace(0, 1, 3)] * 2)
        pts = numpy.array([[.25, .25], [.75, .5]])
        for pg in (L, {'L': 1, 'T': -1}):
            geom = Q(pg, g1); other = {'T': 1} if pg == L else L
            cases_ = [('coords of the same dimension, tol of the same dimension', lambda: t1.locate(geom, Q(pg, pts), tol=Q(pg, 1e-10)), True),
                      ('coords of another dimension', lambda: t1.locate(geom, Q(other, pts), tol=Q(pg, 1e-10)), False), ('plain coords', lambda: t1.locate(geom, pts, tol=Q(pg, 1e-10)), False),
                      ('plain non-zero tol', lambda: t1.locate(geom, Q(pg, pts), tol=1e-10), False), ('tol of another dimension', lambda: t1.locate(geom, Q(pg, pts), tol=Q(other, 1e-10)), False),
                      ('plain maxdist', lambda: t1.locate(geom, Q(pg, pts), tol=Q(pg, 1e-10), maxdist=.5), False), ('maxdist of the same dimension', lambda: t1.locate(geom, Q(pg, pts), tol=Q(pg, 1e-10), maxdist=Q(pg, .5)), True)]
            for name, build, ok in cases_:
                n += 1
                try:
                    build(); accepted = True
                except SI.DimensionError: accepted = False
                except Exception as ex:
                    bad.append(f'locate geom{vec(pg)} {name}: raised {type(ex).__name__}: {ex}'[:200]); continue
                if accepted != ok: bad.append(f'locate geom{vec(pg)} {name}: ' + ('accepted although the dimensions are incompatible' if accepted else 'rejected although the dimensions agree'))
    return n, bad

def unit_roundtrips():
    '''parse -> format with the same unit reproduces the number, for every unit of the real table and a few compound strings (concrete; auxiliary)'''
    bad = []; n = 0
    compound = ['km/h', 'N*m', 'kg*m/s2', 'mm2', 'm/s2', 'kN/m2', 'MPa', 'J/kg/K' if 'K' in SI.units else 'J/kg', 'cm3', 'm_2' if False else 'μm', 'N/mm2', 'W/m2', 'Hz', 'min', 'h', 'kg/m3', 'Pa*s', 'm1_2' if False else 'g']
    for u in list(dict.fromkeys(list(SI.units) + compound)):
        for val in ('2.5', '1', '-0.125'):
            n += 1
            try:
                q = SI.parse(val + u)
                back = q / u if isinstance(q, SI.Quantity) else q
                if abs(back - float(val)) > 1e-12 * max(1, abs(float(val))): bad.append(f'parse({val + u!r}) / {u!r} = {back}')
                if isinstance(q, SI.Quantity):
                    s = format(q, '.3' + u)
                    if not s.endswith(u) or abs(float(s[:-len(u)]) - float(val)) > 5e-4: bad.append(f'format(parse({val + u!r}), ".3{u}") = {s!r}')
            except Exception as ex:
                bad.append(f'{val + u!r}: {type(ex).__name__}: {ex}')
    # fractional powers and quotients
    for s_, want in (('4m2', {'L': 2}), ('3m/s2', {'L': 1, 'T': -2}), ('2kg*m2/s2', {'M': 1, 'L': 2, 'T': -2}), ('5/s', {'T': -1}), ('9m1_2', {'L': F(1, 2)}), ('1/m2', {'L': -2})):
        n += 1
        try:
            q = SI.parse(s_)
            if norm(typeof(q)) != norm(want): bad.append(f'parse({s_!r}) has dimension {typeof(q)}')
        except Exception as ex: bad.append(f'{s_!r}: {type(ex).__name__}: {ex}')
    # grammar semantics: leading number, then factors [scale]unit[power] joined by * and /, each factor meaning scale * unit**power; the reference multiplies
    # the factors with the (separately verified) quantity arithmetic
    import itertools, fractions
    scales = ('', '2', '0.5', '3'); unitnames = ('m', 's', 'kg', 'mm', 'h'); powers = (('', 1), ('2', 2), ('3', 3), ('1_2', fractions.Fraction(1, 2)))
    factors = [(sc + u + pw, (float(sc) if sc else 1.) * getattr(SI.units, u) ** pv) for sc in scales for u in unitnames for pw, pv in powers]
    rng = __import__('random').Random(0)
    combos = [(lead, [rng.choice(factors) for _ in range(k)], [rng.choice('*/') for _ in range(k - 1)]) for lead in ('', '3', '1.5') for k in (1, 2, 3) for _ in range(40)]
    # every (scale != 1, power != 1) factor in a non-leading position is covered systematically
    for f1 in factors[:1] + factors[5:6]:
        for f2 in factors:
            for op in '*/': combos.append(('', [f1, f2], [op])); combos.append(('3', [f1, f2], [op]))
    noscale = [f for f in factors if not f[0][0].isdigit()]
    for lead, fs, ops in combos:
        if lead and fs[0][0][0].isdigit(): fs = [rng.choice(noscale)] + list(fs[1:])     # a leading number followed by a scaled factor would merge into one numeral
        text = lead + fs[0][0] + ''.join(op + f[0] for op, f in zip(ops, fs[1:]))
        want = (float(lead) if lead else 1.) * fs[0][1]
        for op, f in zip(ops, fs[1:]): want = want * f[1] if op == '*' else want / f[1]
        n += 1
        try:
            q = SI.parse(text)
            ratio = q / want
            if isinstance(ratio, SI.Quantity) or abs(float(ratio) - 1) > 1e-12: bad.append(f'parse({text!r}) = {q!r}, the grammar reading gives {want!r}')
        except Exception as ex: bad.append(f'{text!r}: {type(ex).__name__}: {ex}')
    return n, bad

def main(argv=None):
    args = harness.parse_args(PID, argv)
    Rl = rules()
    if args.replay:
        n1, b1 = mesh_cases(); n2, b2 = unit_roundtrips()
        import json
        d = json.load(open(args.replay))['replay']
        r = case(tuple(d['item'])) if d.get('item') else dict(viol=[])
        ok = bool(r['viol'] or b1 or b2); print('REPRODUCED' if ok else 'not reproduced', (r['viol'] or b1 or b2)[:2]); return 1 if ok else 0
    run = harness.Run(PID, 'other', args,
        'Every entry of the real Quantity dispatch table and every operator is applied to quantities with z3-symbolic magnitudes over a grid of dimension exponent vectors; an independent exponent-vector model predicts the resulting '
        'dimension or DimensionError, and z3 decides that the unwrapped value equals the same operation on the plain magnitudes for all values.  A table entry without a rule makes the check fail.')
    run.stubs = ['magnitudes are symx SArrays wrapped with Dimension.wrap']
    run.assumptions = ['dimensions range over an enumerated grid (exponents live in class names / Fraction dicts and cannot be symbolic)', 'differential operators, sample methods and field: dimension rule on a real mesh with concrete magnitudes (auxiliary)',
                       'unit strings: parse/format round trip enumerated over the real unit table (auxiliary); decimal formatting/rounding outside the claim']
    covered = {(f[0] if isinstance(f, tuple) else f) for f in Rl}
    uncovered = []
    for f in TABLE:
        nm = getattr(f, '__name__', str(f))
        if f in covered or nm in MESH_RULES or nm in DECLINED: continue
        uncovered.append(nm)
    if uncovered: run.harness_error(f'dispatch-table entries without an oracle rule: {uncovered}')
    missing = [fname(f) for f in Rl if (f[0] if isinstance(f, tuple) else f) not in TABLE]
    rng = random.Random(args.seed)
    items = []
    for key, f in KEYS.items():
        rule = Rl[f][0]
        pairs = [(pa, pb) for pa in DIMS for pb in DIMS] if rule in ('binary', 'setitem', 'interp') else [(pa, {}) for pa in DIMS]
        if args.tier == 'quick' and len(pairs) > 12: pairs = [(pa, pa) for pa in DIMS[:5]] + rng.sample(pairs, 9)
        for pa, pb in pairs: items.append((key, pa, pb))
    if args.only: items = [it for it in items if args.only in fname(KEYS[it[0]])]
    run.bounds = dict(dispatch_table_entries=len(TABLE), entries_with_symbolic_rule=len(covered & set(TABLE)), mesh_level_entries=sorted(MESH_RULES), declined=DECLINED, rules_without_table_entry=missing, dimension_grid=[str(vec(p)) for p in DIMS], cases=len(items))
    with harness.FuncTrace() as ft:
        case(items[0]); case(items[-1])
    run.functions = {n for n in ft.names if 'SI' in n}
    obligations = discharged = 0
    for out in harness.pmap(case, items, args.jobs, chunksize=8):
        if 'harness_error' in out:
            run.counters['worker_error'] += 1
            if run.counters['worker_error'] <= 5: run.inconclusive.append('worker error: ' + out['harness_error'][:500])
            continue
        run.counters[out['status']] += 1
        if out['status'] == 'skip': continue
        run.case(out['key'], out['q']['exact_unsat'] + out['q']['sat'] > 0); run.add_queries(out['q'])
        obligations += 1; discharged += 0 if out['viol'] else 1
        run.sample(dict(case=out['key'], queries=out['q']), limit=10)
        for what, rp in out['viol']: run.violation(f'{out["key"]}:{rp["kind"]}', what, dict(rp, item=None))
    # vacuity twin: the exponent model must reject a wrong rule
    run.twin(norm(padd({'L': 1}, {'T': 1})) != norm({'L': 1}))
    n1, b1 = mesh_cases(); n2, b2 = unit_roundtrips()
    run.counters['mesh_level_dimension_cases'] = n1; run.counters['unit_roundtrip_cases'] = n2
    for b in b1[:5]: run.violation('mesh:' + b[:60], 'dimension rule of a differential operator / sample method: ' + b, dict(kind='mesh', note=b))
    for b in b2[:5]: run.violation('units:' + b[:60], 'unit parse/format round trip: ' + b, dict(kind='units', note=b))
    return run.finish(dict(obligations=obligations, discharged=discharged, rule='case = (dispatch entry, operand dimensions); nontrivial = the magnitude comparison needed a solver query'))

if __name__ == '__main__':
    sys.exit(main())
