#!/usr/bin/env python3
'''(re)writes /verif/seeded/<id>/meta.json for every seed directory from result.txt / notes.txt / check_seeded.log.
usage: seedmeta.py [--history file]   the optional history file maps seed -> free-text comment (what had to be strengthened)'''
import sys, json, os, re, glob
base = '/verif/seeded'
hist = {}
hp = os.path.join(base, 'HISTORY.json')
if os.path.exists(hp): hist = json.load(open(hp))
rows = []
for d in sorted(glob.glob(base + '/C*-*')):
    name = os.path.basename(d)
    if not os.path.exists(d + '/result.txt'): continue
    res = dict(kv.split('=') for kv in open(d + '/result.txt').read().split())
    notes = open(d + '/notes.txt').read().strip() if os.path.exists(d + '/notes.txt') else ''
    log = open(d + '/check_seeded.log').read() if os.path.exists(d + '/check_seeded.log') else ''
    viol = re.findall(r'VIOLATION property=(\S+) replay=\S+\n\s+(.*)', log)
    h = hist.get(name, {})
    also = {}
    for f in sorted(glob.glob(d + '/also_*.txt')):
        k, v = open(f).read().strip().split('='); also[k[5:]] = ('detected' if v == '1' else 'exit ' + v)
    detected = 'yes' if res.get('check_exit') == '1' and viol else 'no'
    meta = dict(seed=name, property=name.split('-')[0], source='independent sub-agent given only the property text and its own scratch git worktree of /repo (nothing from /verif)',
                what_it_needs_to_manifest=notes,
                confirmed=dict(demo_exit_on_unchanged_tree=res.get('demo_clean_exit'), demo_exit_with_change=res.get('demo_seeded_exit'),
                               pinned_suite_with_change='all 11905 stable_pass tests pass' if res.get('tests_exit') == '0' else res.get('tests_exit'),
                               suite_log='tests_seeded.log'),
                ran=[f'tools/seedrun.sh {name.split("-")[0]} {name.split("-")[1]} <dir>: scratch worktree of /repo HEAD; demo.py on the unchanged tree and with patch.diff applied (git apply); the pinned suite command of BASELINE.json (pytest -n 3, junit compared with stable_pass; load-sensitive tests re-run serially); ./check <PROP> --tier quick with VERIF_REPO=<patched worktree>; worktree removed'],
                check_exit_with_change=res.get('check_exit'), detected_by_quick_check=detected,
                first_violation_lines=[v[1][:300] for v in viol[:3]],
                other_checks_run_on_the_change=also,
                detected_by=([name.split('-')[0]] if detected == 'yes' else []) + [k for k, v in also.items() if v == 'detected'],
                first_attempt=h.get('first', 'detected' if detected == 'yes' else 'missed'),
                comment=h.get('comment', ''))
    json.dump(meta, open(d + '/meta.json', 'w'), indent=1)
    rows.append((name, detected, also, meta['first_attempt'], meta['comment'][:80]))
for r in rows: print(*r, sep=' | ')
