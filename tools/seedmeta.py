#!/usr/bin/env python3
'''writes /verif/seeded/<id>/meta.json from result.txt / notes.txt; usage: seedmeta.py <PROP-variant> <detected: yes|no|after-strengthening|thorough-only|out-of-claim> "<comment>"'''
import sys, json, os, re
d = sys.argv[1]; detected = sys.argv[2]; comment = sys.argv[3] if len(sys.argv) > 3 else ''
base = f'/verif/seeded/{d}'
res = dict(kv.split('=') for kv in open(f'{base}/result.txt').read().split())
notes = open(f'{base}/notes.txt').read() if os.path.exists(f'{base}/notes.txt') else ''
log = open(f'{base}/check_seeded.log').read()
viol = re.findall(r'VIOLATION property=(\S+) replay=\S+\n\s+(.*)', log)
meta = dict(seed=d, property=d.split('-')[0], source='independent sub-agent given only the property text and a scratch worktree of /repo', what_it_needs_to_manifest=notes.strip(),
            confirmed=dict(demo_exit_on_unchanged_tree=int(res['demo_clean_exit']), demo_exit_with_change=int(res['demo_seeded_exit']), existing_tests_exit_with_change=res['tests_exit']),
            ran=[f'PYTHONPATH=/repo/src /venv/bin/python seeded/{d}/demo.py (unchanged tree, then with patch.diff applied by git -C /repo apply)', f'./check {d.split("-")[0]} --tier quick with the patch applied; git -C /repo checkout -- . afterwards'],
            check_exit_with_change=int(res['check_exit']), detected=detected, first_violation_lines=[v[1][:300] for v in viol[:3]], comment=comment)
json.dump(meta, open(f'{base}/meta.json', 'w'), indent=1)
print(d, detected)
