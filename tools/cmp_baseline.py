#!/usr/bin/env python3
'''compare junit xml file(s) with /root/.vp/BASELINE.json stable_pass; later files override earlier ones (serial re-runs of load-sensitive tests).
usage: cmp_baseline.py junit.xml [retry.xml ...] [--files]   (--files: print the test files that contain a not-passing stable test)'''
import json, sys, xml.etree.ElementTree as ET
base = json.load(open('/root/.vp/BASELINE.json'))
stable = set(base['stable_pass'])
files = [a for a in sys.argv[1:] if not a.startswith('--')]
res = {}
for fn in files:
    try: t = ET.parse(fn)
    except Exception: continue
    for tc in t.iter('testcase'):
        name = f"{tc.get('classname')}::{tc.get('name')}"
        bad = any(c.tag in ('failure', 'error') for c in tc)
        skipped = any(c.tag == 'skipped' for c in tc)
        res[name] = 'fail' if bad else 'skip' if skipped else 'pass'
missing = [n for n in stable if n not in res]
notpass = [n for n in stable if res.get(n) not in ('pass',) and n in res]
if '--files' in sys.argv:
    print(' '.join(sorted({'tests/' + n.split('.')[1] + '.py' for n in notpass + missing if n.startswith('tests.')})))
    sys.exit(0)
print('stable', len(stable), 'results', len(res), 'missing', len(missing), 'not passing', len(notpass))
for n in (missing[:10] + notpass[:20]): print('  ', n, res.get(n))
