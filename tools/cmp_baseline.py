#!/usr/bin/env python3
'''compare a junit xml with /root/.vp/BASELINE.json stable_pass'''
import json, sys, xml.etree.ElementTree as ET
base = json.load(open('/root/.vp/BASELINE.json'))
stable = set(base['stable_pass'])
t = ET.parse(sys.argv[1])
res = {}
for tc in t.iter('testcase'):
    name = f"{tc.get('classname')}::{tc.get('name')}"
    bad = any(c.tag in ('failure', 'error') for c in tc)
    skipped = any(c.tag == 'skipped' for c in tc)
    res[name] = 'fail' if bad else 'skip' if skipped else 'pass'
missing = [n for n in stable if n not in res]
notpass = [n for n in stable if res.get(n) not in ('pass',)  and n in res]
print('stable', len(stable), 'results', len(res), 'missing', len(missing), 'not passing', len(notpass))
for n in (missing[:10] + notpass[:20]): print('  ', n, res.get(n))
