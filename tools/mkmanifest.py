#!/usr/bin/env python3
'''Generates MANIFEST.json from the table below and validates it.'''
import json, os, sys
V = os.path.dirname(os.path.dirname(os.path.abspath(__file__)))

CHECKS = {
 'C01': dict(level='translation_validation', design='4/C01',
   technique='symbolic execution of the real generated scripts on z3 terms (NumPy object arrays); per-element SMT equivalence of e vs e.simplified; counterexample replay on real NumPy',
   text='For every program of a bounded family (all constructor applications of depth<=1, depth 2 sampled/exhaustive, seeded deeper DAGs) z3 shows that the simplified and the original expression agree for ALL argument values (reals/integers), or returns a concrete argument that is replayed on the real code.  Termination is observed under a watchdog on the same family.',
   note='Trusted: z3; the SArray model of NumPy (conformance-tested); floats as reals, ints unbounded; transcendental functions uninterpreted.  Programs outside the family, NaN/Inf inputs and int64 overflow are outside the claim.'),
 'C06': dict(level='other', design='4/C06',
   technique='inductive SMT obligations: the real _intbounds_impl executed on symbolic child ranges under a path explorer, node semantics from its real generated script, z3 proves containment for unbounded integers; shape/dtype/arguments via symbolic runs with the generated evalf assertions',
   text='Per node class with an integer-range rule (discovered by introspection) z3 proves, for unbounded integers and every finite/infinite pattern of child ranges, that the evaluated node stays inside the inferred range - an inductive step that covers compositions of any depth.  Shape, dtype, ndim and announced arguments are checked by running family programs symbolically with the generated run-time assertions enabled and exactly the announced arguments supplied.',
   note='Trusted: z3, the SArray model of NumPy.  Axis lengths are small constants; PolyDegree/PolyNCoeffs are enumerated over child ranges within 0..29 (finite enumeration, labelled); TransformIndex and ArrayFromTuple ranges are declined.  Mathematical integers (no int64 wrap).'),
 'C15': dict(level='other', design='4/C15',
   technique='symbolic execution of assemble_csr on z3 integer arrays (all paths) with SMT validity of accepted<=>well-formed; NumpyMatrix operations on z3 terms vs a dense specification, per-element SMT equivalence',
   text='Validation is decided for ALL integer row-pointer/column-index arrays of lengths nnz<=4, nrows<=3 (ncols in {1,2,3}): every execution path of assemble_csr is accepted only if well-formed and rejected only if ill-formed.  Every NumpyMatrix operation (export dense/csr/coo, @, T, neg, scale, div, +, -, diagonal, rowsupp, submatrix, pickle) equals the dense model for all real/complex values on every enumerated sparsity pattern up to 3x3 including 0xN/Nx0.',
   note='NumPy backend only (SciPy/MKL are not installed and their C code is not encodable).  Patterns/shapes are enumerated, values and index arrays are solver variables.  Trusted: z3, SArray model.'),
 'C14': dict(level='other', design='4/C14',
   technique='symbolic execution of the certifying glue (Matrix._solver, Matrix.solve, System.solve driver) with nondeterministic back-end stubs; per-path SMT validity of "normal return implies certificate"; IEEE extended reals for residual norms',
   text='For all matrices n<=2 (3 thorough), right-hand sides, tolerances, constraint patterns (enumerated masks, symbolic values), arbitrary vectors returned by the linear back end and arbitrary residual-norm sequences (finite/NaN/inf, K<=3 (4) iterations) a normal return implies: result finite, constrained entries exactly the prescribed values, free residual within the effective tolerance, at least miniter iterations, last norm finite and <= tol; otherwise a Matrix/Solver error is raised.  Linear solves are independent of the initial guess (exact back end given by its contract).',
   note='Declined: the numerical algorithms themselves (factorisations, Krylov iterations, line searches, time stepping, SciPy/MKL).  Stubs and norm models are listed in the evidence.  Driver counterexamples are reported only if reproduced through the public API with a real Newton system.'),
 'C10': dict(level='other', design='4/C10',
   technique='symbolic execution of transformseq.Axis/DimAxis/IntAxis on z3 integers (all paths), SMT validity of the face/element index facts modulo a symbolic period; counterexamples replayed on the real classes with concrete integers',
   text='ONLY the structured index bookkeeping is claimed: for all sizes, offsets, periods and indices (unbounded integers) both sides of interface t are adjacent elements sharing one face, the interface map is injective and onto the interior faces (all faces if periodic), boundaries are exactly the two end faces (none if periodic), refinement and slicing keep elements/faces in place, opposite() flips to the other side of the same face.  These 1-D facts tensorise to the structured-topology clauses of the property.',
   note='Declined (DESIGN 4/C10): refine/trim/union/subset on general topologies, measures and fluxes (quadrature sums), level-set trimming, hierarchical/multipatch topologies - numeric geometry and object graphs with no integer kernel.  Assumes the axis representation invariant (stated in the evidence), which the same check proves to be preserved by refined/getitem.'),
 'C11': dict(level='other', design='4/C11',
   technique='SMT (z3): Axis lookup arithmetic on symbolic integers; chain rewrites validated as equal affine maps on a symbolic point (translation validation of canonical/uppermost/promote); small structured lookups enumerated',
   text='Axis.map/unmap round trip and exact acceptance set for all i, j, mod, index (unbounded).  For every chain of child/edge transforms of line, square, triangle, cube, tetrahedron, prism up to length 3 (4 thorough; 3-D length 2 in quick) the canonical, uppermost and promoted forms denote the same affine map for ALL points and keep from/to dimensions.  index_with_tail(transforms[i]+tail)=(i,tail) is enumerated on small structured meshes (auxiliary, labelled).',
   note='Declined: locate() (floating-point Newton with tolerance), lookup through interned object identity for arbitrary construction routes, f_index/f_coords/opposite at symbolic points (planned with the function-level harness).'),
 'C02': dict(level='translation_validation', design='4/C02',
   technique='symbolic execution of the real generated Python function (all compile configurations) on z3 terms inside NumPy object arrays vs an independent node-wise denotational interpreter; per-element SMT equivalence; replay on real NumPy',
   text='For every program / nested tuple of the bounded family and the compile configurations (_simplify x _optimize x cache_const_intermediates x stats; all 16 on the corpus and on shared-subterm tuples, default + 2 sampled per program in quick, all in thorough) the generated function (run twice when caching) returns the structure, shapes, kinds and - for ALL argument values - the values the expression denotes according to an independent interpreter.',
   note='Trusted: z3, SArray model of NumPy, the interpreter (symx/interp.py).  Outside: the text of log/statistics output, scripts generated under maxprocs>1 and real multi-process runs (C16), programs outside the family, NaN/Inf, int64 overflow.'),
 'C03': dict(level='translation_validation', design='4/C03',
   technique='symbolic execution of one cached generated function over 3-call histories with distinct z3-symbolic argument sets and symbolic user writes into returned arrays; per-call, per-element SMT equivalence with an independent interpreter',
   text='For every program of the family and call pattern (all arguments change / one changes / same dict reused) the k-th result of a function compiled once with constant caching equals the denotation of the k-th arguments for ALL argument values and ALL values a user may have written into previously returned writable arrays; argument arrays are element-identical before and after each call.',
   note='Histories of 3 calls (the generated script has two states: first run / rerun); longer histories, mesh-level memo tables (Basis._arg_*, topology._locate, System caches) are outside the claim.  A returned array that aliases an argument array is allowed: the reference is the argument value at call time.'),
 'C04': dict(level='translation_validation', design='4/C04',
   technique='SMT equivalence of the real symbolic derivative (compiled, run on z3 terms, contracted with a symbolic direction) with forward-mode dual-number evaluation by an independent interpreter; counterexamples confirmed by finite differences on the real code',
   text='For every differentiable program of the family and every float argument, z3 shows J.dx equals the dual-number tangent for ALL argument values and directions away from kinks (per output element), including differentiation through loops, scatter/gather, polynomial evaluation, inverse and determinant (2x2, 3x3) and second derivatives (first derivatives fed back in); integer/boolean programs have an identically zero derivative of the right shape.',
   note='Declined: complex (holomorphic) differentiation - nutils raises NotImplementedError there; user-defined function._CustomEvaluable operations (no code to encode).  Rational identities that z3 cannot decide within the per-case budget are counted as unknown (inconclusive), never as success.  Uninterpreted transcendental functions: a rewrite relying on an analytic identity shows up as an unconfirmed model.'),
 'C05': dict(level='translation_validation', design='4/C05',
   technique='symbolic execution of the generated COO/CSR extraction functions on z3 terms; SMT well-formedness of the index data and per-element SMT equivalence of the scattered values with an independent dense denotation',
   text='For every program of the family (0-d to 4-d, empty axes, loop sums with element-dependent blocks) the COO data of e.simplified.assparse and the CSR data of as_csr(e) have in-range, unique, lexicographically increasing indices (monotone row pointers, strictly increasing columns per row) for ALL integer argument values, and scattering the listed values into zeros equals the dense value for ALL argument values.',
   note='function.as_coo/as_csr on meshes are covered only through the samples of C09; scipy/mkl consumers are outside.  Index computations that sort symbolic integer data fork per comparison within 64 paths; beyond that the program is counted as not exhaustive.'),
 'C07': dict(level='translation_validation', design='4/C07',
   technique='symbolic execution of lowered-and-compiled function arrays with per-point z3-symbolic operands vs the same NumPy function dispatched onto a symbolic NumPy model, per-element SMT equivalence; operation table read from function.HANDLED_FUNCTIONS',
   text='Every entry of the real dispatch table (78 entries; sinc, eig, eigh declined) plus indexing and operators is exercised with several call signatures (broadcasting, type promotion, axes, negative indices, slices with steps, ellipsis, newaxis, index arrays, depth-2 compositions) at points_shape (), (2,) [(2,2) thorough]: the value at every point equals NumPy applied to the operand values at that point for ALL operand values, with the shape and kind real NumPy produces; shape-incompatible operand combinations are rejected when built.',
   note='The oracle is the SArray model of NumPy (conformance-tested against real NumPy on concrete data).  Complex transcendental functions, sinc, eig/eigh are not modelled.  Point axes are generic axes of the lowering protocol; topologies/samples are the subject of C08/C09/C11.  A dispatch-table entry without call signatures makes the check exit with a harness error.'),
 'C13': dict(level='translation_validation', design='4/C13',
   technique='symbolic execution of lowered-and-compiled function arrays on z3-symbolic argument values; per-element SMT equivalence with the definition (symbolic substitution, dual-number tangent, identity); spellings compared pairwise',
   text='For 10 functionals (polynomial degree<=3, transcendental, rational, and integrals over a 2-element sample so that replacement inside lowered loops is exercised) and replacement maps including swaps and chains: replace(f, x:g)(A) = f(A with x:=g(A)); linearize and derivative equal the dual-number tangent; factor(f)=f (1e-6 margin); field/dotarg equal their einsum definition - for ALL argument values.  Every documented spelling of an argument specification (dict, string, tuple of strings, list of pairs, Argument values/keys) denotes the same replace and linearize result.',
   note='Wrong shape/dtype rejection is an enumerated list of 9 concrete misuse cases (auxiliary, not a solver claim).  Oracle for tangents of mesh-level functionals falls back to the script generated without simplification/optimisation where the interpreter has no denotation for a node (flagged self-referential).'),
 'C09': dict(level='translation_validation', design='4/C09',
   technique='symbolic execution of the lowered Sample.integral / Sample.bind on z3-symbolic per-element integrand coefficients vs an explicit enumeration of (element, point, weight) from the definition of the sample construction; per-element SMT equivalence (exact, or 1e-9 margin for binary64-folded Gauss weights)',
   text='For 30 sample constructions (62 thorough): plain gauss/uniform/bezier samples on line, square and triangle meshes, element slices, products over two spaces, unions, take_elements, point subsets, custom indices, nested to depth 2 - integral(f) equals the sum over points of weight times value and eval/bind(f) lists the values at the sample\'s own points in the order getindex advertises, for ALL integrand coefficient values; getindex partitions the point numbering.',
   note='Declined: exactness of Gauss schemes for polynomials, points inside the element and weights summing to the volume (finite floating point facts about tables, nothing quantified); trimmed mosaics, located samples with weights and Sample.zip (their construction is numeric geometry).  Reference point tables are taken from Reference.getpoints (environment data).  Observed, undocumented: take_elements on a union groups the taken elements by operand; the reference follows that.'),
 'C17': dict(level='other', design='4/C17',
   technique='the real hashing code executed with hashlib replaced by a recorder; collision freedom of the recorded pre-image structure decided by z3 sequence theory under an ideal SHA-1 (digest equal => pre-image equal), leaves constrained to the language of their encoder',
   text='For 41 value skeletons (scalars, None/Ellipsis/types, tuples/lists/sets/dicts incl. empty and nested, namedtuple, dataclass, Immutable subclasses incl. same-named classes, frozendict, frozenmultiset) and all pairs of them (all same-skeleton pairs + 32 type-confusion pairs + 120 sampled in quick; all 861 in thorough) z3 shows that two different values cannot have equal top-level hash pre-images unless SHA-1 itself collides; order independence of dict/set/multiset is inside the same queries.',
   note='Auxiliary (concrete, labelled): keyword/positional construction, int32/int64 arraydata, numpy scalars, commutative operands, pickle round trip, other process and PYTHONHASHSEED.  Declined: identity of interned objects over allocation/GC histories; SHA-1 itself.  Leaf texts are bounded to 8 characters; repr(float) is treated as an injective text.  Seekable streams (pos ++ content ambiguity) are not among the immutable nutils values the property names.'),
 'C18': dict(level='other', design='4/C18',
   technique='symbolic execution of cache.function and Recursion.__iter__ on an in-memory file model whose earlier-run state is symbolic (number of complete items, state of the next file, exception kind, sequence length) with a symbolic linear recurrence as the memoised computation; per-path SMT validity; real-file replay',
   text='For every history within the bounds - n complete items (symbolic), then an empty / truncated / garbage file or a stop marker, any of the caught load exceptions, sequences of symbolic length, recursion length 1-2 (3 thorough) - the cached iteration yields exactly the uncached items, replays the log once per entry read, computes each missing item exactly once from the correct history and leaves complete files; cache.function returns the uncached value for every file state (incl. old formats), executes the function only when the entry is not complete, never stores a failed call.',
   note='Assumption checked by enumeration in the same run (labelled): every strict prefix of a real pickle stream fails to load with EOFError/UnpicklingError (1886 cut points), and real cache files cut at every byte are recomputed correctly (397 cut points).  Declined: concurrent callers (real flock between OS processes, same reason as C16) and crashes while overwriting a longer stale entry.'),
}

NOT_APPLICABLE = {
 'C16': 'Quantifies over schedules and faults of forked OS processes sharing mmap memory; no available engine executes Python symbolically across processes and no counterexample could be replayed (racy window is inside one C call).  The single-worker semantics of the script generated under maxprocs>1 is covered by C02.',
}
PENDING = 'check not built yet in this tree (see DESIGN.md section 4 for the plan); not claimed'

def main():
    props = [json.loads(l)['id'] for l in open(os.path.join(V, 'properties.jsonl'))]
    checks = []
    for pid in props:
        if pid not in CHECKS: continue
        c = CHECKS[pid]
        checks.append(dict(property_id=pid, quick_cmd=f'./check {pid} --tier quick', thorough_cmd=f'./check {pid} --tier thorough',
                           evidence_file=f'evidence/{pid}.json', replay_cmd_template=f'./check {pid} --replay {{path}}', engine='symx',
                           level_claimed=dict(category=c['level'], text=c['text'], design_ref=c['design']), level_note=c['note'], technique=c['technique']))
    na = [dict(property_id=p, reason=NOT_APPLICABLE.get(p, PENDING)) for p in props if p not in CHECKS]
    m = dict(version=1, setup_cmd='./setup.sh',
             hooks=dict(guard='NUTILS_VERIF', enable='no source hooks: checks import /repo/src from the working tree (editable install in /venv) and instrument by swapping module attributes at run time',
                        baseline_off_cmd='cd /repo && /venv/bin/python -m pytest -ra -q -p no:cacheprovider --timeout=900 --continue-on-collection-errors', source_commits=[], add_only=True),
             engines=[dict(name='symx', path='symx/', serves_properties=sorted(CHECKS), kind_free_text='symbolic execution of the real nutils code on z3 terms (own path explorer + NumPy object-array model) with z3 as the deciding step; CrossHair for symbolic strings')],
             checks=checks, not_applicable=na,
             notes='fix: commits in /repo: see known_findings.json (fixed entries).  Exit codes: 0 held / 1 VIOLATION (replayed on the real code) / 3 harness error.')
    json.dump(m, open(os.path.join(V, 'MANIFEST.json'), 'w'), indent=1)
    try:
        import jsonschema
        jsonschema.validate(m, json.load(open('/root/.vp/MANIFEST.schema.json')))
        for c in checks:
            p = os.path.join(V, c['evidence_file'])
            if os.path.exists(p):
                jsonschema.validate(json.load(open(p)), json.load(open('/root/.vp/EVIDENCE.schema.json')))
        print('MANIFEST valid;', len(checks), 'checks,', len(na), 'not applicable')
    except ImportError:
        print('jsonschema missing; not validated')
if __name__ == '__main__': main()
