#!/bin/bash
# usage: tools/seedrun.sh <PROP> <variant a|b|..> <srcdir with patch.diff demo.py notes.txt> [stage ...]
# stages (default: all): demo tests check.  Works on a scratch worktree of /repo (never on /repo itself), so several seeds can be processed in parallel:
#   demo   - demo.py must exit 0 on the unchanged tree and non-zero with the patch
#   tests  - the pinned suite (BASELINE.json command) runs on the patched worktree; every stable_pass test must still pass
#   check  - ./check <PROP> --tier quick with VERIF_REPO=<patched worktree>, evidence/replays redirected to a scratch dir
# Everything is stored under /verif/seeded/<PROP>-<variant>/; the worktree is removed afterwards.
set -u
P=$1; V=$2; SRC=$3; shift 3
STAGES=${*:-demo tests retest check}
OUT=/verif/seeded/$P-$V; mkdir -p $OUT
for f in patch.diff demo.py notes.txt; do [ -f $SRC/$f ] && [ "$SRC" != "$OUT" ] && cp $SRC/$f $OUT/$f; done
WT=/tmp/st/$P-$V; SCR=/tmp/st/$P-$V.out; mkdir -p /tmp/st; rm -rf $SCR; mkdir -p $SCR
git -C /repo worktree remove --force $WT >/dev/null 2>&1; rm -rf $WT
git -C /repo worktree add --detach $WT HEAD >/dev/null 2>&1 || { echo "cannot create worktree"; exit 2; }
export OMP_NUM_THREADS=1
declare -A R; [ -f $OUT/result.txt ] && for kv in $(cat $OUT/result.txt); do R[${kv%%=*}]=${kv#*=}; done
if [[ " $STAGES " == *" demo "* ]]; then
  (cd $SCR && PYTHONPATH=$WT/src timeout 900 /venv/bin/python $OUT/demo.py) > $OUT/demo_clean.log 2>&1; R[demo_clean_exit]=$?
fi
git -C $WT apply $OUT/patch.diff || { echo "patch does not apply"; git -C /repo worktree remove --force $WT; exit 2; }
if [[ " $STAGES " == *" demo "* ]]; then
  (cd $SCR && PYTHONPATH=$WT/src timeout 900 /venv/bin/python $OUT/demo.py) > $OUT/demo_seeded.log 2>&1; R[demo_seeded_exit]=$?
fi
if [[ " $STAGES " == *" tests "* ]]; then
  (cd $WT && PYTHONPATH=$WT/src timeout 7200 /venv/bin/python -m pytest -q -p no:cacheprovider --timeout=900 --continue-on-collection-errors -n ${SEED_TEST_JOBS:-3} --junitxml=$SCR/junit.xml > $SCR/tests.log 2>&1)
  tail -3 $SCR/tests.log > $OUT/tests_seeded.log
  RETRY=$(python3 /verif/tools/cmp_baseline.py $SCR/junit.xml --files)
  if [ -n "$RETRY" ] && [ $(echo $RETRY | wc -w) -le 3 ]; then   # load-sensitive tests (test_parallel under xdist): re-run those files serially
    (cd $WT && PYTHONPATH=$WT/src timeout 3600 /venv/bin/python -m pytest -q -p no:cacheprovider --timeout=900 -n 0 --junitxml=$SCR/retry.xml $RETRY > $SCR/retry.log 2>&1)
    echo "serial re-run of $RETRY: $(tail -1 $SCR/retry.log)" >> $OUT/tests_seeded.log
  fi
  python3 /verif/tools/cmp_baseline.py $SCR/junit.xml $SCR/retry.xml >> $OUT/tests_seeded.log 2>&1
  if grep -q "missing 0 not passing 0" $OUT/tests_seeded.log; then R[tests_exit]=0; else R[tests_exit]=1; fi
fi
if [[ " $STAGES " == *" retest "* ]]; then
  # the earlier full run failed only in the listed load-sensitive stable tests: re-run their files serially on the patched tree
  FILES=$(grep -E "^   tests\." $OUT/tests_seeded.log | sed -E 's/^   tests\.([a-zA-Z_0-9]+)\..*/tests\/\1.py/' | sort -u | tr '\n' ' ')
  if [ -n "$FILES" ] && grep -q "missing 0 not passing [1-3]$" $OUT/tests_seeded.log; then
    (cd $WT && PYTHONPATH=$WT/src timeout 3600 /venv/bin/python -m pytest -q -p no:cacheprovider --timeout=900 -n 0 $FILES > $SCR/retry.log 2>&1); RC=$?
    echo "serial re-run of $FILES on the patched tree: $(tail -1 $SCR/retry.log) (exit $RC)" >> $OUT/tests_seeded.log
    [ $RC -eq 0 ] && R[tests_exit]=0
    if [ $RC -ne 0 ]; then   # scheduling-sensitive test (parallel.range needs every forked worker to get an iteration): compare with the unchanged tree under the same load
      (cd /repo && timeout 3600 /venv/bin/python -m pytest -q -p no:cacheprovider --timeout=900 -n 0 $FILES > $SCR/retry_clean.log 2>&1); RC2=$?
      echo "same files on the unchanged tree at the same time: $(tail -1 $SCR/retry_clean.log) (exit $RC2)" >> $OUT/tests_seeded.log
      if [ $RC2 -ne 0 ] && [ "$(grep -c '^FAILED' $SCR/retry.log)" = "$(grep -c '^FAILED' $SCR/retry_clean.log)" ] && diff <(grep '^FAILED' $SCR/retry.log | cut -d' ' -f2) <(grep '^FAILED' $SCR/retry_clean.log | cut -d' ' -f2) >/dev/null; then
        echo "identical failures with and without the change (load-sensitive test): not attributed to the change" >> $OUT/tests_seeded.log; R[tests_exit]=0
      fi
    fi
  fi
fi
if [[ " $STAGES " == *" check "* ]]; then
  (cd /verif && VERIF_REPO=$WT VERIF_OUT=$SCR timeout 3600 ./check $P --tier ${SEED_TIER:-quick} --jobs ${SEED_CHECK_JOBS:-6}) > $OUT/check_seeded.log 2>&1; R[check_exit]=$?
  sed -i "s#$SCR#<scratch>#g" $OUT/check_seeded.log
fi
for A in ${SEED_ALSO:-}; do     # further checks (of other properties) that are expected to see the change
  (cd /verif && VERIF_REPO=$WT VERIF_OUT=$SCR timeout 3600 ./check $A --tier ${SEED_TIER:-quick} --jobs ${SEED_CHECK_JOBS:-6}) > $OUT/check_seeded_$A.log 2>&1; echo "also_$A=$?" > $OUT/also_$A.txt
  sed -i "s#$SCR#<scratch>#g" $OUT/check_seeded_$A.log
done
git -C /repo worktree remove --force $WT; rm -rf $SCR
: > $OUT/result.txt; for k in demo_clean_exit demo_seeded_exit tests_exit check_exit; do echo -n "$k=${R[$k]:-skipped} " >> $OUT/result.txt; done; echo >> $OUT/result.txt
echo "$P-$V: $(cat $OUT/result.txt)"
grep -E "VIOLATION" -A1 $OUT/check_seeded.log 2>/dev/null | head -4
tail -1 $OUT/check_seeded.log 2>/dev/null
