#!/bin/bash
# usage: tools/seedtest.sh <PROP> <variant a|b> <srcdir with patch.diff demo.py notes.txt> "<pytest files>" [extra check args]
# Confirms a seeded change (demo passes without / fails with; named tests pass with), runs ./check <PROP> on the changed tree, undoes the change,
# and stores everything under /verif/seeded/<PROP>-<variant>/.
set -u
P=$1; V=$2; SRC=$3; TESTS=$4; shift 4
OUT=/verif/seeded/$P-$V; mkdir -p $OUT
cp $SRC/patch.diff $OUT/patch.diff; cp $SRC/demo.py $OUT/demo.py; cp $SRC/notes.txt $OUT/notes.txt 2>/dev/null
cd /repo; git status --short | grep -q . && { echo "/repo not clean"; exit 2; }
export OMP_NUM_THREADS=1
PYTHONPATH=/repo/src timeout 600 /venv/bin/python $OUT/demo.py > $OUT/demo_clean.log 2>&1; DC=$?
git apply $OUT/patch.diff || { echo "patch does not apply"; exit 2; }
PYTHONPATH=/repo/src timeout 600 /venv/bin/python $OUT/demo.py > $OUT/demo_seeded.log 2>&1; DS=$?
TR=skipped
if [ -n "$TESTS" ]; then timeout 3000 /venv/bin/python -m pytest -q -p no:cacheprovider $TESTS > $OUT/tests_seeded.log 2>&1; TR=$?; fi
cd /verif; timeout 3000 ./check $P "$@" > $OUT/check_seeded.log 2>&1; CR=$?
git -C /repo checkout -- . ; git -C /repo status --short | grep -q . && echo "WARNING repo dirty"
rm -rf /verif/replays/$P
echo "demo_clean_exit=$DC demo_seeded_exit=$DS tests_exit=$TR check_exit=$CR" | tee $OUT/result.txt
grep -E "VIOLATION" -A1 $OUT/check_seeded.log | head -6
tail -1 $OUT/check_seeded.log
