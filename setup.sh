#!/bin/sh
# Offline set-up: /verif/.venv = venv over /venv (nutils deps + editable /repo) + z3-solver, cvc5, crosshair-tool
# from the local wheelhouse.  Idempotent.
set -e
cd "$(dirname "$0")"
V=.venv
if [ ! -x $V/bin/python ] || ! $V/bin/python -c 'import z3, nutils, numpy' 2>/dev/null; then
  rm -rf $V
  /venv/bin/python -m venv $V
  SP=$($V/bin/python -c 'import sysconfig; print(sysconfig.get_paths()["purelib"])')
  printf 'import site; site.addsitedir("/venv/lib/python3.12/site-packages")\n' > "$SP/_verif_overlay.pth"
  PIP_NO_INDEX=1 $V/bin/python -m pip install -q --no-index --find-links /opt/veriftools/wheels z3-solver cvc5 crosshair-tool jsonschema >/dev/null 2>&1 || \
  PIP_NO_INDEX=1 $V/bin/python -m pip install -q --no-index --find-links /opt/veriftools/wheels z3-solver
fi
$V/bin/python -c 'import z3, nutils, numpy; print("setup ok: z3", z3.get_version_string(), "numpy", numpy.__version__, "nutils from", nutils.__file__)'
